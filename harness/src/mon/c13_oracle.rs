//! C13 — offline oracle over the device log and the subscriber logs (virtual time).
//!
//! Rules come from the property statement only. Reports may OVER-report (coalescing may
//! resend unchanged data), never UNDER-report.

use std::collections::{BTreeMap, BTreeSet};

use crate::report::Report;
use crate::sim::clock::{TICKS_PER_MS, TICKS_PER_SEC};
use crate::sim::exec::RunStatus;

use super::c13::{event_matches, expand, fmt_sub_ev, Outcome, Params};
use super::c13_dev::{DevEv, Path};
use super::c13_sub::{Content, Policy, SubEv, SubPlan};

/// One received message (priming chunk or report chunk) of a logical subscription.
#[derive(Clone, Debug)]
pub struct Chunk<'a> {
    pub t: u64,
    pub priming: bool,
    pub xchg: u64,
    pub chunk: u32,
    pub content: &'a Content,
    pub answered: Policy,
    pub more: bool,
    /// first transmission of the datagram that carried it (from the wire tap), if it can
    /// be identified unambiguously
    pub first_tx: Option<u64>,
    /// received after a device restart that happened after the subscription was established
    pub resumed: bool,
}

/// A logical subscription: one subscribe transaction of one subscriber (+ its
/// continuation after a device restart).
pub struct LSub<'a> {
    pub sub: usize,
    pub ord: usize,
    pub plan: &'a SubPlan,
    pub t_start: u64,
    pub t_est: Option<u64>,
    pub id: Option<u32>,
    pub max_int: u16,
    pub epoch: usize,
    pub chunks: Vec<Chunk<'a>>,
    pub resumed_ids: BTreeSet<u32>,
}

fn ms(o: &Outcome, t: u64) -> f64 {
    (t.saturating_sub(o.t0)) as f64 / 1000.0
}

/// Is there a fault that can affect the path device<->subscriber `sub` in [a, b] (ticks)?
fn path_fault(p: &Params, o: &Outcome, sub: usize, a: u64, b: u64, restarts: &[(u64, u64)]) -> bool {
    let to_t = |m: u64| o.t0.saturating_add(m.saturating_mul(TICKS_PER_MS));
    let overlaps = |x: u64, y: u64| x <= b && y >= a;
    for w in &p.windows[sub - 1] {
        if overlaps(to_t(w.from_ms), to_t(w.to_ms)) {
            return true;
        }
    }
    for (j, x, y) in &p.down {
        if *j == sub && overlaps(to_t(*x), to_t(*y)) {
            return true;
        }
    }
    if let Some((x, y, _)) = p.chaos {
        if overlaps(to_t(x), to_t(y)) {
            return true;
        }
    }
    for (x, y) in restarts {
        if overlaps(*x, *y) {
            return true;
        }
    }
    false
}

/// Any subscriber failing (silent / down) in [a, b]: its report transaction can hold the
/// device's single reporter for a response time-out.
fn any_sub_fault(p: &Params, o: &Outcome, a: u64, b: u64) -> bool {
    (1..=p.n_subs).any(|s| path_fault(p, o, s, a, b, &[]))
}

pub fn judge(rep: &mut Report, p: &Params, o: &Outcome, replay: serde_json::Value) {
    if let Some(msg) = &o.panic {
        rep.violation(
            "no-panic",
            &format!("C13/panic/{}", crate::util::panic_class(msg)),
            format!("panic during scenario (family {:?}): {}", p.family, msg),
            replay.clone(),
        );
        return;
    }
    if let Some(e) = &o.setup_error {
        rep.inconclusive(&format!("setup-failed:{}", e.split(':').next().unwrap_or("?")));
        return;
    }
    match o.status {
        Some(RunStatus::Done) => {}
        Some(s) => {
            rep.inconclusive(&format!("run-status-{:?}", s));
            return;
        }
        None => {
            rep.inconclusive("no-status");
            return;
        }
    }
    if o.ca_retries > 0 {
        rep.note(&format!("certificate-generator-failed-and-was-retried:{}", o.ca_error));
    }
    for v in &o.tap_violations {
        if v.starts_with("counter-not-increasing") {
            // Observed on the unchanged tree: a standalone acknowledgement and a data message
            // prepared in the same instant leave the node in swapped counter order. No nonce is
            // reused; the C15 statement is about reuse only, so this is recorded, not judged here.
            rep.note("tap:first-transmissions-not-in-counter-order");
            continue;
        }
        rep.violation(
            "C15-tap",
            &format!("C15/tap/{}", v.split(':').next().unwrap_or("x")),
            format!("passive nonce monitor: {} (C13 family {:?})", v, p.family),
            replay.clone(),
        );
    }

    let end = o.end_time;
    let t_quiet = o.t0 + p.t_quiet_ms * TICKS_PER_MS;

    // ---- device-side facts
    let mut boots: Vec<u64> = Vec::new(); // start times of boots 0,1,..
    let mut downs: Vec<u64> = Vec::new();
    let mut changes: BTreeMap<Path, Vec<(u64, u32)>> = BTreeMap::new();
    let mut events: Vec<(u64, u16, u32, u32, u64, u64, u32)> = Vec::new(); // t, ep, cl, ev, number, payload, boot
    for e in &o.dev_log {
        match e {
            DevEv::Boot { t, .. } => boots.push(*t),
            DevEv::Down { t } => downs.push(*t),
            DevEv::Change { t, path, version, .. } => changes.entry(*path).or_default().push((*t, *version)),
            DevEv::Event { t, ep, cluster, event, number, payload, boot } => {
                if let Some(n) = number {
                    events.push((*t, *ep, *cluster, *event, *n, *payload, *boot));
                } else {
                    rep.note("emit_event-failed");
                }
            }
            DevEv::Error { what, .. } => rep.note(&format!("device-error:{}", what.split(':').next().unwrap_or("?"))),
        }
    }
    let restarts: Vec<(u64, u64)> = downs
        .iter()
        .enumerate()
        .map(|(k, d)| (*d, boots.get(k + 1).copied().unwrap_or(end) + 2 * TICKS_PER_SEC))
        .collect();
    let last_boot = boots.len().saturating_sub(1) as u32;
    let epoch_of = |t: u64| boots.iter().filter(|b| **b <= t).count().saturating_sub(1);
    if !downs.is_empty() {
        rep.count("scenarios_with_restart");
    }
    if p.n_subs >= 2 {
        rep.count("scenarios_with_2plus_subscribers");
    }

    // ---- logical subscriptions
    let mut lsubs: Vec<LSub> = Vec::new();
    let mut unmapped = 0u64;
    for (si, log) in o.sub_logs.iter().enumerate() {
        let sub = si + 1;
        for e in log {
            match e {
                SubEv::Start { t, ord } => lsubs.push(LSub {
                    sub,
                    ord: *ord,
                    plan: &p.plans[si][*ord],
                    t_start: *t,
                    t_est: None,
                    id: None,
                    max_int: 0,
                    epoch: epoch_of(*t),
                    chunks: Vec::new(),
                    resumed_ids: BTreeSet::new(),
                }),
                SubEv::Priming { t, ord, chunk, content, more, .. } => {
                    if let Some(l) = lsubs.iter_mut().find(|l| l.sub == sub && l.ord == *ord) {
                        l.chunks.push(Chunk {
                            t: *t,
                            priming: true,
                            xchg: u64::MAX,
                            chunk: *chunk,
                            content,
                            answered: Policy::Ok,
                            more: *more,
                            first_tx: None,
                            resumed: false,
                        });
                    }
                    for odd in &content.odd {
                        rep.note(&format!("priming-odd:{}", odd));
                    }
                }
                SubEv::Established { t, ord, id, max_int } => {
                    if let Some(l) = lsubs.iter_mut().find(|l| l.sub == sub && l.ord == *ord) {
                        l.t_est = Some(*t);
                        l.id = Some(*id);
                        l.max_int = *max_int;
                    }
                    rep.count("subscriptions_established");
                }
                SubEv::Failed { err, .. } => {
                    rep.count("subscribe_failed");
                    rep.note(&format!("subscribe-failed:{}", err));
                }
                SubEv::Report { t, sub_id, xchg, chunk, content, more, answered, plen, .. } => {
                    rep.count("reports_received");
                    rep.count(&format!("report_answered:{:?}", answered));
                    if content.attrs.is_empty() && content.events.is_empty() {
                        rep.count("reports_empty_liveness");
                    }
                    for odd in &content.odd {
                        rep.note(&format!("report-odd:{}", odd));
                    }
                    let ep = epoch_of(*t);
                    let Some(id) = sub_id else {
                        rep.note("report-without-subscription-id");
                        continue;
                    };
                    // the datagram that carried it: a device->subscriber datagram of matching
                    // size one of whose copies arrived when the handler got the message
                    let first_tx = {
                        let mut groups: Vec<u64> = Vec::new();
                        for (_, dst, len, h, arrivals, unsecured) in &o.wire {
                            if *dst == sub
                                && !*unsecured
                                && *len >= *plen + 26
                                && *len <= *plen + 60
                                && arrivals.iter().any(|a| *a <= *t && *a + TICKS_PER_MS >= *t)
                                && !groups.contains(h)
                            {
                                groups.push(*h);
                            }
                        }
                        if groups.len() == 1 {
                            o.wire.iter().filter(|w| w.3 == groups[0] && w.1 == sub).map(|w| w.0).min()
                        } else {
                            None
                        }
                    };
                    let mk = |resumed: bool| Chunk {
                        first_tx,
                        t: *t,
                        priming: false,
                        xchg: *xchg,
                        chunk: *chunk,
                        content,
                        answered: *answered,
                        more: *more,
                        resumed,
                    };
                    // same epoch: by id
                    if let Some(l) = lsubs
                        .iter_mut()
                        .find(|l| l.sub == sub && l.epoch == ep && l.id == Some(*id) && l.t_est.map(|x| x <= *t).unwrap_or(false))
                    {
                        l.chunks.push(mk(false));
                        continue;
                    }
                    // after a restart: the subscriber's only established subscription
                    let cands: Vec<usize> = lsubs
                        .iter()
                        .enumerate()
                        .filter(|(_, l)| l.sub == sub && l.epoch < ep && l.t_est.is_some())
                        .map(|(k, _)| k)
                        .collect();
                    if cands.len() == 1 {
                        let l = &mut lsubs[cands[0]];
                        if l.id != Some(*id) && l.resumed_ids.insert(*id) {
                            rep.note("resumed-subscription-reports-under-a-different-subscription-id");
                        }
                        l.resumed_ids.insert(*id);
                        l.chunks.push(mk(true));
                        rep.count("reports_after_restart_mapped");
                        continue;
                    }
                    unmapped += 1;
                }
            }
        }
    }
    if unmapped > 0 {
        rep.count_n("reports_not_mapped_to_a_subscription", unmapped);
        rep.note("report-for-unknown-subscription-id");
        if std::env::var("RSMV_C13_DEBUG").is_ok() {
            eprintln!("DEBUG unknown-subscription-id {}", replay);
        }
    }
    for l in lsubs.iter_mut() {
        l.chunks.sort_by_key(|c| c.t);
    }

    // ---- scenario classes (coverage)
    let mut change_during_priming = false;
    let mut multichunk = false;
    for l in &lsubs {
        if let Some(te) = l.t_est {
            let subscribed = expand(&l.plan.attrs);
            if subscribed
                .iter()
                .any(|pth| changes.get(pth).map(|v| v.iter().any(|(t, _)| *t > l.t_start && *t < te)).unwrap_or(false))
            {
                change_during_priming = true;
            }
            if l.chunks.iter().filter(|c| c.priming).count() >= 2 {
                multichunk = true;
            }
        }
    }
    if change_during_priming {
        rep.count("scenarios_with_change_during_priming");
    }
    if multichunk {
        rep.count("scenarios_with_multichunk_priming");
    }
    // > 16 distinct paths changed within one second while some subscription exists
    {
        let mut all: Vec<(u64, Path)> = Vec::new();
        for (pth, v) in &changes {
            for (t, _) in v {
                all.push((*t, *pth));
            }
        }
        all.sort();
        let first_est = lsubs.iter().filter_map(|l| l.t_est).min().unwrap_or(u64::MAX);
        let mut hit = false;
        for (k, (t, _)) in all.iter().enumerate() {
            if *t < first_est {
                continue;
            }
            let set: BTreeSet<Path> = all[k..].iter().take_while(|(t2, _)| *t2 <= *t + TICKS_PER_SEC).map(|(_, p)| *p).collect();
            if set.len() > 16 {
                hit = true;
                break;
            }
        }
        if hit {
            rep.count("scenarios_with_more_than_16_pending_changes");
        }
    }
    let mut failed_then_retried = false;
    let n_established = lsubs.iter().filter(|l| l.t_est.is_some()).count();

    // ---- per logical subscription rules
    for l in &lsubs {
        let Some(t_est) = l.t_est else { continue };
        let max_t = l.max_int as u64 * TICKS_PER_SEC;
        // The device commits the subscription into its table only after the SubscribeResponse
        // has been acknowledged: one one-way delay after the subscriber saw it.
        let t_commit = t_est + (p.slow_net_ms + 2) * TICKS_PER_MS;
        let min_t = l.plan.min as u64 * TICKS_PER_SEC;
        let class_subs = if p.n_subs == 1 { "single-subscriber" } else { "several-subscribers" };
        let restarted_after = downs.iter().any(|d| *d > t_est);
        let class_env = if restarted_after {
            "device-restarted"
        } else if path_fault(p, o, l.sub, l.t_start, end, &[]) {
            "with-faults"
        } else if any_sub_fault(p, o, l.t_start, end) {
            "other-subscriber-faulty"
        } else {
            "no-faults"
        };

        let last = l.chunks.last();
        // Looks alive at the end (used for coverage counters and the "went silent" note only).
        let alive = match last {
            Some(c) => c.answered == Policy::Ok && c.t + max_t + 2 * TICKS_PER_SEC > end,
            None => false,
        };
        rep.count(if alive { "subscriptions_alive_at_end" } else { "subscriptions_ended_before_end" });
        // Completeness is judged AT THE LAST REPORT the subscriber received: the device sent it,
        // so the subscription had not ended then. If that report came at least the bound
        // (max interval + retry back-off (<= max interval) + one MRP ladder) after the quiet
        // point, everything that changed before the quiet point must have been received by
        // then. Otherwise nothing is claimed (the subscription may have ended: the subscriber
        // cannot tell before a full max interval of silence).
        let bound = 2 * max_t + 12 * TICKS_PER_SEC;
        let t_star = last.map(|c| c.t).unwrap_or(0);
        // "once faults stop": a subscriber that keeps failing after the quiet point (the
        // permanently silent one) is outside the claim.
        let faults_stopped = !path_fault(p, o, l.sub, t_quiet + TICKS_PER_MS, end, &[]);
        let judged = last.map(|c| !c.priming).unwrap_or(false) && t_star >= t_quiet + bound && faults_stopped;
        rep.count(if judged { "subscriptions_judged_for_completeness" } else { "subscriptions_not_judged_for_completeness" });

        let describe = |extra: String| -> String {
            let mut s = format!(
                "family {:?}, {} subscriber(s); subscription of S{} #{}: id {:?} (resumed ids {:?}), attr paths {:?}, event paths {:?}, min {} s, requested max {} s, negotiated max {} s, keep_subs {}; subscribe sent {:.3} ms, established {:.3} ms; quiet point {:.3} ms, end {:.3} ms. {}\nchunks of this subscription: ",
                p.family, p.n_subs, l.sub, l.ord, l.id, l.resumed_ids, l.plan.attrs, l.plan.events, l.plan.min, l.plan.max, l.max_int, l.plan.keep,
                ms(o, l.t_start), ms(o, t_est), ms(o, t_quiet), ms(o, end), extra
            );
            for c in l.chunks.iter() {
                s.push_str(&format!(
                    "[{:.3} {} x{} c{} {:?} a{} e{}{}] ",
                    ms(o, c.t),
                    if c.priming { "prime" } else { "report" },
                    if c.priming { 0 } else { c.xchg },
                    c.chunk,
                    c.answered,
                    c.content.attrs.len(),
                    c.content.events.len(),
                    if c.resumed { " resumed" } else { "" }
                ));
            }
            s.push_str(&format!(
                "\ndevice: boots at {:?} ms, downs at {:?} ms",
                boots.iter().map(|b| ms(o, *b)).collect::<Vec<_>>(),
                downs.iter().map(|b| ms(o, *b)).collect::<Vec<_>>()
            ));
            s
        };

        // S1 (attributes): completeness at the bound
        if judged && !l.plan.attrs.is_empty() {
            for pth in expand(&l.plan.attrs) {
                let vf = o.final_versions.get(&pth).copied().unwrap_or(0);
                if vf == 0 {
                    continue;
                }
                rep.count("S1-attr-evaluated");
                let hist = changes.get(&pth).cloned().unwrap_or_default();
                if hist.iter().any(|(t, _)| *t > l.t_start) {
                    rep.count("S1-attr-changed-after-subscribe");
                }
                if hist.iter().any(|(t, _)| *t > l.t_start && *t <= t_commit) {
                    rep.count("S1-attr-changed-during-priming");
                }
                let maxrep: Option<u32> = l
                    .chunks
                    .iter()
                    .flat_map(|c| c.content.attrs.iter())
                    .filter(|(q, _)| *q == pth)
                    .map(|(_, v)| *v)
                    .max();
                if maxrep.map(|m| m < vf).unwrap_or(true) {
                    // when was the first change the subscriber never saw?
                    let first_missing = hist.iter().find(|(_, v)| maxrep.map(|m| *v > m).unwrap_or(true));
                    let when = match first_missing {
                        Some((t, _)) if *t <= l.t_start => "changed-before-subscribe",
                        Some((t, _)) if *t <= t_commit => "changed-during-priming",
                        Some(_) => "changed-after-established",
                        None => "unknown",
                    };
                    let seen: Vec<String> = l
                        .chunks
                        .iter()
                        .filter_map(|c| {
                            c.content.attrs.iter().find(|(q, _)| *q == pth).map(|(_, v)| format!("v{}@{:.3}{}", v, ms(o, c.t), if c.priming { "(priming)" } else { "" }))
                        })
                        .collect();
                    let others: Vec<String> = o
                        .sub_logs
                        .iter()
                        .enumerate()
                        .filter(|(i, _)| *i + 1 != l.sub)
                        .flat_map(|(i, lg)| {
                            lg.iter().filter_map(move |e| match e {
                                SubEv::Report { t, .. } => Some(format!("S{}@{:.3}", i + 1, (*t - o.t0) as f64 / 1000.0)),
                                _ => None,
                            })
                        })
                        .take(40)
                        .collect();
                    rep.violation(
                        "S1-attribute-completeness",
                        &format!("C13/S1-attr/{}/{}/{}", when, class_subs, class_env),
                        describe(format!(
                            "ATTRIBUTE {}/{:#x}/{}: device's final version v{} (changes: {:?}), highest version this subscriber ever received: {:?} (received: {:?}). The device still reported on this subscription at {:.3} ms (its last report), {} ms after the last change of this attribute, and the subscriber has not learned it. Reports to other subscribers: {:?}",
                            pth.0, pth.1, pth.2, vf,
                            hist.iter().map(|(t, v)| format!("v{}@{:.3}", v, ms(o, *t))).collect::<Vec<_>>(),
                            maxrep, seen, ms(o, t_star),
                            hist.last().map(|(t, _)| t_star.saturating_sub(*t) / 1000).unwrap_or(0),
                            others
                        )),
                        replay.clone(),
                    );
                }
            }
        }

        // S1 (events)
        if judged && !l.plan.events.is_empty() {
            let got: BTreeSet<u64> = l.chunks.iter().flat_map(|c| c.content.events.iter().map(|(n, _)| *n)).collect();
            for (t, ep, cl, ev, n, payload, boot) in &events {
                if !event_matches(&l.plan.events, *ep, *cl, *ev) || *t <= l.t_start {
                    continue;
                }
                if *boot != last_boot {
                    rep.count("events_before_a_restart_not_judged");
                    continue;
                }
                rep.count("S1-event-evaluated");
                if *t < t_est {
                    rep.count("S1-event-emitted-during-priming");
                }
                if !got.contains(n) {
                    let when = if *t < t_est { "emitted-during-priming" } else { "emitted-after-established" };
                    rep.violation(
                        "S1-event-completeness",
                        &format!("C13/S1-event/{}/{}/{}", when, class_subs, class_env),
                        describe(format!(
                            "EVENT number {} (endpoint {} cluster {:#x} event {}, payload {}) emitted at {:.3} ms was never reported to this subscription although the device still reported on it much later; event numbers it received: {:?}",
                            n, ep, cl, ev, payload, ms(o, *t), got
                        )),
                        replay.clone(),
                    );
                }
            }
        }

        // S2: content of an unacknowledged report is sent again
        for (k, c) in l.chunks.iter().enumerate() {
            if c.priming || c.answered != Policy::Silent {
                continue;
            }
            let later_all = &l.chunks[k + 1..];
            if !later_all.is_empty() {
                failed_then_retried = true;
            }
            // judged once a later report transaction of this subscription arrived completely
            // (its last chunk, more=false, was received): the unacknowledged content was still
            // pending, so it must be in what was sent up to there.
            let Some(upto) = later_all.iter().position(|c2| !c2.priming && !c2.more && c2.xchg != c.xchg) else {
                continue;
            };
            let later = &later_all[..=upto];
            if downs.iter().any(|d| *d > c.t) {
                // the event queue is volatile and a resumed subscription is re-primed in full
                rep.count("S2-skipped-device-restarted-afterwards");
                continue;
            }
            rep.count("S2-evaluated");
            for (n, payload) in &c.content.events {
                rep.count("S2-event-items");
                if !later.iter().any(|c2| c2.content.events.iter().any(|(m, _)| m == n)) {
                    rep.violation(
                        "S2-retry-same-content",
                        &format!("C13/S2/event-of-unacknowledged-report-not-resent/{}", class_env),
                        describe(format!(
                            "the report received at {:.3} ms was NOT answered (subscriber silent); it carried event number {} (payload {}), which the following reports of this subscription (up to the next complete one) do not contain: the device considered it sent",
                            ms(o, c.t), n, payload
                        )),
                        replay.clone(),
                    );
                }
            }
            for (pth, v) in &c.content.attrs {
                rep.count("S2-attr-items");
                if !later.iter().any(|c2| c2.content.attrs.iter().any(|(q, v2)| q == pth && v2 >= v)) {
                    rep.violation(
                        "S2-retry-same-content",
                        &format!("C13/S2/attribute-of-unacknowledged-report-not-resent/{}", class_env),
                        describe(format!(
                            "the report received at {:.3} ms was NOT answered (subscriber silent); it carried {}/{:#x}/{} = v{}, which the following reports of this subscription (up to the next complete one) do not carry again (same or newer version)",
                            ms(o, c.t), pth.0, pth.1, pth.2, v
                        )),
                        replay.clone(),
                    );
                }
            }
        }

        // Report transactions (first chunk of every server-initiated exchange)
        let txs: Vec<&Chunk> = l.chunks.iter().filter(|c| !c.priming && c.chunk == 0).collect();
        let tx_ok = |x: u64| l.chunks.iter().filter(|c| !c.priming && c.xchg == x).all(|c| c.answered == Policy::Ok);

        // S3: minimum interval, measured between FIRST TRANSMISSIONS taken from the wire tap
        // (the handler's receive time is late when the first copy was lost or the subscriber
        // was busy), so network perturbation does not matter.
        for w in txs.windows(2) {
            let (a, b) = (w[0], w[1]);
            if restarts.iter().any(|(x, y)| *x <= b.t && *y >= a.t) {
                continue;
            }
            let (Some(ta), Some(tb)) = (a.first_tx, b.first_tx) else {
                rep.count("S3-skipped-datagram-not-identified");
                continue;
            };
            let gap = tb.saturating_sub(ta);
            if !tx_ok(a.xchg) {
                if gap + 50 * TICKS_PER_MS < min_t {
                    rep.note("retry-of-failed-report-earlier-than-min-interval");
                }
                continue;
            }
            rep.count("S3-evaluated");
            if min_t > 0 && gap < min_t + TICKS_PER_SEC {
                rep.count("S3-evaluated-binding");
            }
            if gap + 50 * TICKS_PER_MS < min_t {
                // a secure-session establishment towards this subscriber shortly before the
                // earlier report? (the device stamps the report before it has a session)
                let reest = o.wire.iter().any(|w| w.1 == l.sub && w.5 && w.0 <= ta && w.0 + 10 * TICKS_PER_SEC >= ta);
                let others_faulty = any_sub_fault(p, o, ta.saturating_sub(90 * TICKS_PER_SEC), tb);
                let class = if reest {
                    "after-session-reestablishment"
                } else if others_faulty {
                    "while-another-subscriber-fails"
                } else if n_established > 1 {
                    "several-subscriptions-served-in-one-round"
                } else {
                    "single-subscription"
                };
                rep.violation(
                    "S3-min-interval",
                    &format!("C13/S3/reports-closer-than-min-interval/{}", class),
                    describe(format!(
                        "two consecutive reports of this subscription (exchanges {} and {} at the subscriber) were first transmitted at {:.3} ms and {:.3} ms (wire tap): {} ms apart, negotiated minimum interval {} s; the earlier one was answered Success (received {:.3} / {:.3} ms)",
                        a.xchg, b.xchg, ms(o, ta), ms(o, tb), gap / 1000, l.plan.min, ms(o, a.t), ms(o, b.t)
                    )),
                    replay.clone(),
                );
            }
        }

        // S4 / S5: gap between a report answered Success (or the establishment) and the next
        // report of the same subscription.
        //  * nothing wrong on this subscription's own path in between  => S4 (liveness), also
        //    when ANOTHER subscriber is failing (the statement has no such exemption);
        //  * faults on its own path (silent / down / lossy net / device restart) => S5: it
        //    must have ended one max interval (+ one MRP ladder) after the last success.
        let mut prev_ok: Option<u64> = Some(t_est);
        let mut failing_since = 0u32;
        for c in l.chunks.iter().filter(|c| !c.priming) {
            if let Some(t_ok) = prev_ok {
                let gap = c.t.saturating_sub(t_ok);
                let own_fault = path_fault(p, o, l.sub, t_ok, c.t, &restarts);
                if !own_fault && failing_since == 0 {
                    rep.count("S4-evaluated");
                    let others = any_sub_fault(p, o, t_ok.saturating_sub(60 * TICKS_PER_SEC), c.t);
                    if others {
                        rep.count("S4-evaluated-while-another-subscriber-fails");
                    }
                    if gap > max_t + TICKS_PER_SEC {
                        // which unrelated changes happened in the gap (diagnosis aid)
                        let subscribed: BTreeSet<Path> = expand(&l.plan.attrs).into_iter().collect();
                        let unrelated: Vec<String> = changes
                            .iter()
                            .filter(|(pth, _)| !subscribed.contains(pth))
                            .flat_map(|(_, v)| v.iter())
                            .filter(|(t, _)| *t > t_ok && *t < c.t)
                            .map(|(t, _)| format!("{:.0}", ms(o, *t)))
                            .collect();
                        let other_failures: Vec<String> = o
                            .sub_logs
                            .iter()
                            .enumerate()
                            .filter(|(i, _)| *i + 1 != l.sub)
                            .flat_map(|(i, lg)| {
                                lg.iter().filter_map(move |e| match e {
                                    SubEv::Report { t, answered, .. } if *answered != Policy::Ok => {
                                        Some(format!("S{} {:?}@{:.0}", i + 1, answered, (*t - o.t0) as f64 / 1000.0))
                                    }
                                    _ => None,
                                })
                            })
                            .collect();
                        rep.violation(
                            "S4-max-interval",
                            &format!(
                                "C13/S4/gap-longer-than-max-interval/{}",
                                if others { "while-another-subscriber-fails" } else { "no-faults-anywhere" }
                            ),
                            describe(format!(
                                "no report for {} ms (from {:.3} to {:.3} ms) although the previous report was answered Success, nothing was wrong on this subscriber's path and the negotiated maximum interval is {} s. Changes of attributes this subscription did NOT subscribe to during the gap (ms): {:?}. Unanswered reports of other subscribers: {:?}",
                                gap / 1000, ms(o, t_ok), ms(o, c.t), l.max_int, unrelated, other_failures
                            )),
                            replay.clone(),
                        );
                    }
                } else {
                    rep.count("S5-evaluated");
                    // a resumed subscription: measure from the restart if that is later
                    let base = if c.resumed {
                        boots.iter().copied().filter(|b| *b <= c.t).max().unwrap_or(t_ok).max(t_ok)
                    } else {
                        t_ok
                    };
                    let gap = c.t.saturating_sub(base);
                    if gap > max_t + 12 * TICKS_PER_SEC {
                        let kind = if c.resumed { "resumed-after-restart" } else { "same-boot" };
                        rep.violation(
                            "S5-failing-subscription-ends",
                            &format!("C13/S5/report-later-than-max-interval-after-last-success/{}", kind),
                            describe(format!(
                                "a report arrived at {:.3} ms, {} ms after {} ({:.3} ms; last report answered Success: {:.3} ms); every report in between failed (subscriber silent / unreachable / device restart). The negotiated maximum interval is {} s: the subscription should have ended no later than {:.3} ms (+ one MRP ladder, 12 s allowed)",
                                ms(o, c.t), gap / 1000,
                                if c.resumed { "the device resumed it after a restart" } else { "the last report that was answered Success" },
                                ms(o, base), ms(o, t_ok), l.max_int, ms(o, base + max_t)
                            )),
                            replay.clone(),
                        );
                    }
                }
            }
            if c.answered == Policy::Ok {
                prev_ok = Some(c.t);
                failing_since = 0;
            } else {
                failing_since += 1;
                if c.answered == Policy::Fail {
                    // the subscriber itself terminated the subscription
                    prev_ok = None;
                }
            }
        }

        // observed, not judged: the subscriber re-subscribed with keep_subs=false, the new
        // subscription got established, and the old one is still being reported on long after
        if let Some(newer) = lsubs
            .iter()
            .filter(|n| n.sub == l.sub && n.t_start > l.t_start && !n.plan.keep && n.t_est.is_some() && n.epoch == l.epoch)
            .filter_map(|n| n.t_est)
            .min()
        {
            let limit = newer + (4 * p.slow_net_ms + 2_000) * TICKS_PER_MS;
            if l.chunks.iter().any(|c| !c.priming && !c.resumed && c.t > limit) {
                rep.note("old-subscription-still-reported-after-keep_subs-false-resubscribe");
                if std::env::var("RSMV_C13_DEBUG").is_ok() {
                    eprintln!("DEBUG old-sub-survives {} : {}", replay, describe(format!("newer subscription established {:.3} ms", ms(o, newer))));
                }
            }
        }

        // observed, not judged: an established subscription that falls silent with no visible cause
        if !alive {
            let t_last = last.map(|c| c.t).unwrap_or(t_est);
            let last_ok = last.map(|c| c.answered == Policy::Ok).unwrap_or(true);
            let replaced = o.sub_logs[l.sub - 1].iter().any(|e| match e {
                SubEv::Start { t, ord } => *t > l.t_start && !p.plans[l.sub - 1][*ord].keep,
                _ => false,
            });
            let faulty = path_fault(p, o, l.sub, t_last, end, &restarts);
            if last_ok && !replaced && !faulty && t_last + max_t + 2 * TICKS_PER_SEC <= end {
                let others = any_sub_fault(p, o, l.t_start, end);
                rep.note(&format!(
                    "established-subscription-went-silent-without-visible-cause/{}/{}",
                    class_subs,
                    if others { "other-subscriber-faulty" } else { "no-faults" }
                ));
                if std::env::var("RSMV_TRACE").is_ok() || std::env::var("RSMV_C13_DEBUG").is_ok() {
                    eprintln!("DEBUG went-silent {} : {}", replay, describe(String::new()));
                }
            }
        }
    }
    if failed_then_retried {
        rep.count("scenarios_with_failed_then_retried_report");
    }

    if std::env::var("RSMV_TRACE").is_ok() {
        for (i, l) in o.sub_logs.iter().enumerate() {
            eprintln!("S{} log entries: {}", i + 1, l.len());
            let _ = l.iter().map(fmt_sub_ev).count();
        }
    }
}
