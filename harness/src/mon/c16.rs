//! C16 — the TLV codec round-trips every value and rejects every malformed input safely.
//!
//! (A) round trip: harness-side value trees (`c16_tree`) written with the real `TLVWrite`,
//!     parsed with `TLVElement`, compared structurally, re-encoded; derived `FromTLV`/`ToTLV`
//!     types (`c16_types`).
//! (B) malformed input: random / enumerated / truncated / length-substituted / nested /
//!     mutated byte strings; every public accessor under `catch_unwind` (`c16_probe`).

use std::collections::BTreeMap;
use std::sync::atomic::{AtomicU64, Ordering};
use std::sync::{Arc, Mutex};

use serde_json::{json, Value};

use rs_matter::tlv::TLVElement;

use crate::report::{Ctx, Report};
use crate::sim::rng::{subseed, Fnv, Rng};

use super::c16_probe::{
    drain_notes, guarded, hex, install_hook, set_stage, stage, unhex, Acc, Out, PanicInfo,
    ELEM_ACCS,
};
use super::c16_tree as tree;
use super::c16_types as types;

/// Max elements (root + descendants) probed per input.
const ELEM_BUDGET: usize = 40;

pub struct Stats {
    pub acc_ok: Vec<u64>,
    pub acc_err: Vec<u64>,
    pub ft_ok: Vec<u64>,
    pub ft_err: Vec<u64>,
    pub counters: BTreeMap<&'static str, u64>,
    pub ctl_seen: [bool; 256],
    pub max_probe_depth: usize,
    /// progress for the hang watchdog
    pub progress: Arc<AtomicU64>,
    pub current: Arc<Mutex<Vec<u8>>>,
}

impl Stats {
    fn new() -> Self {
        Self {
            acc_ok: vec![0; ELEM_ACCS.len()],
            acc_err: vec![0; ELEM_ACCS.len()],
            ft_ok: vec![0; types::FT_ACCS.len()],
            ft_err: vec![0; types::FT_ACCS.len()],
            counters: BTreeMap::new(),
            ctl_seen: [false; 256],
            max_probe_depth: 0,
            progress: Arc::new(AtomicU64::new(0)),
            current: Arc::new(Mutex::new(Vec::new())),
        }
    }

    #[inline]
    pub fn count(&mut self, k: &'static str) {
        *self.counters.entry(k).or_insert(0) += 1;
    }

    fn flush(&self, rep: &mut Report) {
        for (k, v) in &self.counters {
            rep.count_n(k, *v);
        }
        let (mut ok, mut err) = (0, 0);
        for (i, a) in ELEM_ACCS.iter().enumerate() {
            ok += self.acc_ok[i];
            err += self.acc_err[i];
            rep.count_n(&format!("acc:{}:ok", a.name), self.acc_ok[i]);
            rep.count_n(&format!("acc:{}:err", a.name), self.acc_err[i]);
        }
        rep.count_n("probe:ok-results", ok);
        rep.count_n("probe:err-results", err);
        let (mut ok, mut err) = (0, 0);
        for (i, a) in types::FT_ACCS.iter().enumerate() {
            ok += self.ft_ok[i];
            err += self.ft_err[i];
            rep.count_n(&format!("fromtlv:{}:ok", a.name), self.ft_ok[i]);
        }
        rep.count_n("fromtlv:ok-results", ok);
        rep.count_n("fromtlv:err-results", err);
        rep.count_n(
            "ctl:distinct-control-bytes-as-first-byte",
            self.ctl_seen.iter().filter(|b| **b).count() as u64,
        );
        rep.count_n("probe:max-depth", self.max_probe_depth as u64);
    }
}

/// Value-type class of the first byte of `b` (for signatures).
pub fn ctl_class(b: &[u8]) -> &'static str {
    match b.first() {
        None => "empty",
        Some(c) => match c & 0x1f {
            0..=3 => "sint",
            4..=7 => "uint",
            8 | 9 => "bool",
            10 | 11 => "float",
            12..=14 => "utf8",
            15 => "utf8-64l",
            16..=18 => "octets",
            19 => "octets-64l",
            20 => "null",
            21..=23 => "container",
            24 => "end-of-container",
            _ => "reserved-type",
        },
    }
}

enum Found {
    Panic(PanicInfo),
    Bad(&'static str, String),
}

impl Found {
    fn key(&self) -> String {
        match self {
            Found::Panic(p) => format!("panic/{}/{}", p.kind(), p.file()),
            Found::Bad(rule, _) => (*rule).to_string(),
        }
    }
}

fn run_acc(acc: &Acc, bytes: &[u8]) -> Result<Out, PanicInfo> {
    set_stage("");
    guarded(|| (acc.f)(bytes))
}

fn find_acc(name: &str) -> Option<&'static Acc> {
    ELEM_ACCS
        .iter()
        .chain(types::FT_ACCS.iter())
        .find(|a| a.name == name)
}

fn reproduces(acc: &Acc, bytes: &[u8], key: &str) -> bool {
    match run_acc(acc, bytes) {
        Err(p) => Found::Panic(p).key() == key,
        Ok(Out::Bad(r, d)) => Found::Bad(r, d).key() == key,
        _ => false,
    }
}

/// Shrink a witness: drop leading / trailing bytes, then single bytes, while the same
/// violation class (rule, panic kind, file) persists for the same accessor.
fn minimise(acc: &Acc, bytes: &[u8], key: &str) -> Vec<u8> {
    let mut cur = bytes.to_vec();
    let mut budget = 4000usize;
    loop {
        let mut changed = false;
        // shortest prefix
        for n in 0..cur.len() {
            if budget == 0 {
                return cur;
            }
            budget -= 1;
            if reproduces(acc, &cur[..n], key) {
                cur.truncate(n);
                changed = true;
                break;
            }
        }
        // drop single bytes
        let mut i = 0;
        while i < cur.len() && cur.len() <= 512 {
            if budget == 0 {
                return cur;
            }
            budget -= 1;
            let mut c = cur.clone();
            c.remove(i);
            if reproduces(acc, &c, key) {
                cur = c;
                changed = true;
            } else {
                i += 1;
            }
        }
        if !changed {
            return cur;
        }
    }
}

fn report_found(
    rep: &mut Report,
    acc: &Acc,
    elem: &[u8],
    whole: &[u8],
    class: &str,
    found: Found,
) {
    let key = found.key();
    let sig = match &found {
        Found::Panic(p) => format!("C16/panic/{}/{}/{}", p.kind(), p.file(), acc.group),
        Found::Bad(rule, _) => format!("C16/{}/{}/{}", rule, acc.group, ctl_class(elem)),
    };
    let already = rep.violations.iter().filter(|v| v.signature == sig).count();
    let st = stage();
    if already >= 3 {
        // counted, not stored
        rep.violation(&key, &sig, String::new(), Value::Null);
        return;
    }
    let min = minimise(acc, elem, &key);
    // describe the minimal witness (re-run to get its own message)
    let what = match run_acc(acc, &min) {
        Err(p) => format!("panic '{}' at {}", p.msg, p.loc),
        Ok(Out::Bad(r, d)) => format!("{r}: {d}"),
        _ => match &found {
            Found::Panic(p) => format!("panic '{}' at {}", p.msg, p.loc),
            Found::Bad(r, d) => format!("{r}: {d}"),
        },
    };
    let stage_s = if st.is_empty() { String::new() } else { format!(" (stage {st})") };
    let detail = format!(
        "accessor {}{} on TLVElement::new(hex {}) [{} bytes, minimised from a {}-byte element of a {}-byte '{}' input {}]: {}. \
         The statement requires decoding of arbitrary bytes to end in a value or an error, never a panic / overflow / out-of-range access / unbounded loop, with every reported length inside the input.",
        acc.name,
        stage_s,
        hex(&min),
        min.len(),
        elem.len(),
        whole.len(),
        class,
        if whole.len() <= 96 { format!("hex {}", hex(whole)) } else { format!("hex {}..", hex(&whole[..96])) },
        what
    );
    rep.violation(
        &key,
        &sig,
        detail,
        json!({"check":"C16","kind":"bytes","hex":hex(&min),"accessor":acc.name,"orig_hex": if whole.len() <= 512 { hex(whole) } else { String::new() }, "class": class}),
    );
}

/// Run every accessor on `bytes` (and on its descendants), every FromTLV decoder on the root.
/// Wall-clock budget of a slow-interpreter run (Miri): once it is used up the remaining inputs
/// of the shard are skipped (and counted), so that the process ends with the report of what
/// it did observe instead of running into the driver's time-out. Only coverage depends on it,
/// never a verdict.
static SLOW_RUN_DEADLINE: std::sync::OnceLock<std::time::Instant> = std::sync::OnceLock::new();

pub fn past_deadline() -> bool {
    SLOW_RUN_DEADLINE.get().map(|d| std::time::Instant::now() > *d).unwrap_or(false)
}

pub fn probe_input(rep: &mut Report, st: &mut Stats, bytes: &[u8], class: &'static str) {
    if past_deadline() {
        st.count("inputs-skipped-after-the-slow-run-budget");
        return;
    }
    rep.evaluations += 1;
    st.count("inputs");
    st.progress.fetch_add(1, Ordering::Relaxed);
    if let Ok(mut c) = st.current.try_lock() {
        c.clear();
        c.extend_from_slice(bytes);
    }
    if let Some(b) = bytes.first() {
        st.ctl_seen[*b as usize] = true;
    }
    let mut clean = true;
    let mut beh = Fnv::new();
    beh.add(&[bytes.first().copied().unwrap_or(0), bytes.is_empty() as u8]);

    // worklist of element slices (suffixes of the input)
    let mut work: Vec<(&[u8], usize)> = vec![(bytes, 0)];
    let mut done = 0usize;
    while let Some((el, depth)) = work.pop() {
        if done >= ELEM_BUDGET {
            break;
        }
        done += 1;
        st.max_probe_depth = st.max_probe_depth.max(depth);
        for (i, acc) in ELEM_ACCS.iter().enumerate() {
            // The TLVContainer wrappers only look at the element's first bytes; probing them on
            // every descendant (a suffix of the same input) adds cost, not coverage.
            if depth > 0 && acc.group.starts_with("container-") {
                continue;
            }
            match run_acc(acc, el) {
                Ok(Out::Ok) => {
                    st.acc_ok[i] += 1;
                    if depth == 0 {
                        beh.add(&[1]);
                    }
                }
                Ok(Out::Err) => {
                    st.acc_err[i] += 1;
                    if depth == 0 {
                        beh.add(&[2]);
                    }
                }
                Ok(Out::Bad(rule, d)) => {
                    clean = false;
                    beh.add(&[3]);
                    report_found(rep, acc, el, bytes, class, Found::Bad(rule, d));
                }
                Err(p) => {
                    clean = false;
                    beh.add(&[4]);
                    st.count("panics-caught");
                    report_found(rep, acc, el, bytes, class, Found::Panic(p));
                }
            }
        }
        // children
        let kids = guarded(|| {
            let mut v: Vec<&[u8]> = Vec::new();
            if let Ok(seq) = TLVElement::new(el).container() {
                for (n, c) in seq.iter().enumerate() {
                    match c {
                        Ok(c) if n < ELEM_BUDGET => v.push(c.raw_data()),
                        _ => break,
                    }
                }
            }
            v
        });
        if let Ok(kids) = kids {
            if !kids.is_empty() && depth + 1 >= 4 {
                st.count("probe:descended-depth>=4");
            }
            for k in kids.into_iter().rev() {
                work.push((k, depth + 1));
            }
        }
    }
    beh.add(&[done.min(8) as u8]);

    for (i, acc) in types::FT_ACCS.iter().enumerate() {
        match run_acc(acc, bytes) {
            Ok(Out::Ok) => {
                st.ft_ok[i] += 1;
                beh.add(&[5, i as u8]);
            }
            Ok(Out::Err) => st.ft_err[i] += 1,
            Ok(Out::Bad(rule, d)) => {
                clean = false;
                report_found(rep, acc, bytes, bytes, class, Found::Bad(rule, d));
            }
            Err(p) => {
                clean = false;
                st.count("panics-caught");
                report_found(rep, acc, bytes, bytes, class, Found::Panic(p));
            }
        }
    }
    for n in drain_notes() {
        rep.note(n);
    }
    if clean {
        st.count("inputs:all-accessors-clean");
    } else {
        st.count("inputs:with-violation");
    }
    rep.distinct.insert(beh.0);
}

fn spawn_watchdog(st: &Stats, shard: u64) {
    let progress = st.progress.clone();
    let current = st.current.clone();
    let _ = std::thread::Builder::new()
        .name("c16-watchdog".into())
        .spawn(move || {
            let mut last = u64::MAX;
            let mut stuck = 0u32;
            loop {
                std::thread::sleep(std::time::Duration::from_secs(5));
                let p = progress.load(Ordering::Relaxed);
                if p == last && p != 0 {
                    stuck += 1;
                } else {
                    stuck = 0;
                    last = p;
                }
                if stuck >= 12 {
                    // 60 s on one input: attribute the hang and die (the driver sees exit != 0).
                    let bytes = current.lock().map(|c| c.clone()).unwrap_or_default();
                    let js = json!({"check":"C16","kind":"bytes","hex":hex(&bytes),"accessor":"*","class":"hang(non-termination?)"});
                    let path = format!("/verif/replays/C16-hang-shard{shard}.json");
                    let _ = std::fs::write(&path, js.to_string());
                    eprintln!("C16: no progress for 60 s on input hex {} (replay written to {path})", hex(&bytes));
                    std::process::exit(4);
                }
            }
        });
}

pub const BOUNDARIES: [&str; 10] = [
    "0", "1", "len-1", "len+1", "2^8-1", "2^16-1", "2^31", "2^32-1", "2^63", "2^64-1",
];

pub fn run(ctx: &Ctx) -> Report {
    let mut rep = Report::new(
        "C16",
        "A case is one byte string fed to every public TLVElement/TLVSequence/TLVContainer accessor and every FromTLV decoder (B), \
         or one value tree / derived value written, decoded, compared and re-encoded (A). distinct = distinct behaviour vectors: \
         (first byte, Ok/Err/violation outcome of every accessor on the root element, which FromTLV decoders accepted, number of elements probed) \
         for (B) and (shape hash of the tree: tag forms, value types, length widths, nesting) for (A).",
    );
    rep.assumptions.push("a child element yielded by iteration is the suffix slice of the input starting at that element, so a finding on a descendant is reported (and replayed) as TLVElement::new(suffix)".into());
    rep.assumptions.push("termination of loops inside a single rs-matter call is guarded by a wall-clock watchdog thread (60 s without progress => exit code 4 = inconclusive for the driver + /verif/replays/C16-hang-shardN.json); iterator termination is checked in-line by bounding yielded items by input length + 4".into());
    rep.assumptions.push("Nullable<int> values equal to the reserved null encoding (MAX for unsigned, MIN for signed) are outside the value domain of the derived types and are not generated".into());
    install_hook();
    rep.max_violations = 150;

    if let Some(r) = &ctx.replay {
        replay(&mut rep, r);
        return rep;
    }

    let scale = |n: u64| ((n as f64) * ctx.scale.min(1.0)).ceil() as u64;
    for (k, min) in [
        ("inputs", 500_000u64),
        ("inputs:all-accessors-clean", 2_000),
        ("probe:ok-results", 100_000),
        ("probe:err-results", 100_000),
        ("fromtlv:ok-results", 1_000),
        ("fromtlv:err-results", 100_000),
        ("ctl:distinct-control-bytes-as-first-byte", 256),
        ("in:random", 50_000),
        ("in:ctl-enum", 50_000),
        ("in:truncation", 50_000),
        ("in:len-substitution", 50_000),
        ("in:nested", 20_000),
        ("in:mutated", 20_000),
        ("in:derived-mutated", 20_000),
        ("rt:trees", 20_000),
        ("rt:trees-ok", 1_000),
        ("rt:elements-compared", 100_000),
        ("rt:reencode-to_tlv-equal", 10_000),
        ("rt:lenw1", 1_000),
        ("rt:lenw2", 1_000),
        ("rt:lenw4", 1_000),
        ("rt:lenw8", 1_000),
        ("rt:depth>=8", 100),
        ("rt:depth>=32", 10),
        ("rt:tag:anonymous", 1_000),
        ("rt:tag:context", 1_000),
        ("rt:tag:common16", 1_000),
        ("rt:tag:common32", 1_000),
        ("rt:tag:implicit16", 1_000),
        ("rt:tag:implicit32", 1_000),
        ("rt:tag:fq48", 1_000),
        ("rt:tag:fq64", 1_000),
        ("rt:int-extreme", 1_000),
        ("rt:float-nan", 100),
        ("derived:cases", 10_000),
        ("derived:roundtrip-ok", 10_000),
    ] {
        rep.floor(k, scale(min).max(1));
    }
    for b in BOUNDARIES {
        rep.floor(&format!("sub:{b}"), scale(2_000).max(1));
    }
    rep.floor("sub:widened-to-8-byte-length", scale(5_000).max(1));

    let mut st = Stats::new();
    if ctx.mode == "miri" {
        let _ = SLOW_RUN_DEADLINE.set(std::time::Instant::now() + std::time::Duration::from_secs(25 * 60));
    }
    if ctx.mode != "miri" {
        // (an interpreter 10^4 times slower legitimately spends minutes on one input; there
        // the driver's per-process time-out is the only guard)
        spawn_watchdog(&st, ctx.shard);
    }
    let base = ctx.shard_seed();

    // ---------------- (A) round trips ----------------
    let n_trees = ctx.share(40_000, 1_600_000);
    for i in 0..n_trees {
        if past_deadline() {
            break;
        }
        let seed = subseed(base, &[0xA, i]);
        tree::rt_tree_case(&mut rep, &mut st, seed, i < 2);
    }
    let n_derived = ctx.share(16_000, 800_000);
    for i in 0..n_derived {
        let seed = subseed(base, &[0xD, i]);
        types::rt_derived_case(&mut rep, &mut st, seed, None);
    }

    // ---------------- (B) malformed input ----------------
    let n_inputs = ctx.share(1_000_000, 100_000_000);
    let mut rng = Rng::new(subseed(base, &[0xB]));
    let mut done = 0u64;
    let mut round = 0u64;
    while done < n_inputs && !past_deadline() {
        let before = rep.evaluations;
        tree::malformed_round(&mut rep, &mut st, &mut rng, round, ctx);
        round += 1;
        done += rep.evaluations - before;
    }

    st.flush(&mut rep);
    rep
}

fn replay(rep: &mut Report, r: &Value) {
    let mut st = Stats::new();
    match r["kind"].as_str().unwrap_or("bytes") {
        "tree" => {
            tree::rt_tree_case(rep, &mut st, r["seed"].as_u64().unwrap_or(0), true);
        }
        "derived" => {
            types::rt_derived_case(rep, &mut st, r["seed"].as_u64().unwrap_or(0), r["type"].as_str());
        }
        _ => {
            let bytes = unhex(r["hex"].as_str().unwrap_or(""));
            let name = r["accessor"].as_str().unwrap_or("*");
            match find_acc(name) {
                Some(acc) => {
                    rep.evaluations += 1;
                    match run_acc(acc, &bytes) {
                        Ok(Out::Ok) => rep.count("replay:ok"),
                        Ok(Out::Err) => rep.count("replay:err"),
                        Ok(Out::Bad(rule, d)) => {
                            report_found(rep, acc, &bytes, &bytes, "replay", Found::Bad(rule, d))
                        }
                        Err(p) => report_found(rep, acc, &bytes, &bytes, "replay", Found::Panic(p)),
                    }
                }
                None => probe_input(rep, &mut st, &bytes, "replay"),
            }
        }
    }
    st.flush(rep);
}
