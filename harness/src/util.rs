//! Small shared helpers: panic capture, hex.

use std::any::Any;
use std::cell::RefCell;

thread_local! {
    static LAST_PANIC_LOC: RefCell<Option<String>> = const { RefCell::new(None) };
}

/// Install a panic hook that prints nothing and remembers the panic location.
pub fn quiet_panics() {
    std::panic::set_hook(Box::new(|info| {
        let loc = info
            .location()
            .map(|l| format!("{}:{}", l.file(), l.line()))
            .unwrap_or_default();
        LAST_PANIC_LOC.with(|c| *c.borrow_mut() = Some(loc));
    }));
}

pub fn last_panic_location() -> String {
    LAST_PANIC_LOC.with(|c| c.borrow().clone().unwrap_or_default())
}

pub fn panic_msg(e: &Box<dyn Any + Send>) -> String {
    let msg = if let Some(s) = e.downcast_ref::<&str>() {
        s.to_string()
    } else if let Some(s) = e.downcast_ref::<String>() {
        s.clone()
    } else {
        "<non-string panic>".to_string()
    };
    format!("{} @ {}", msg, last_panic_location())
}

/// Stable class of a panic message: location file:line + message with digits removed.
pub fn panic_class(msg: &str) -> String {
    let (m, loc) = match msg.rsplit_once(" @ ") {
        Some((m, l)) => (m, l),
        None => (msg, ""),
    };
    let file = loc
        .rsplit_once("/src/")
        .map(|(_, f)| f)
        .unwrap_or(loc)
        .to_string();
    let m: String = m
        .chars()
        .filter(|c| !c.is_ascii_digit())
        .take(60)
        .collect();
    format!("{}|{}", file, m.trim())
}

pub fn hex(b: &[u8]) -> String {
    let mut s = String::with_capacity(b.len() * 2);
    for x in b {
        s.push_str(&format!("{:02x}", x));
    }
    s
}

pub fn unhex(s: &str) -> Vec<u8> {
    let s = s.trim();
    (0..s.len() / 2)
        .map(|i| u8::from_str_radix(&s[2 * i..2 * i + 2], 16).unwrap_or(0))
        .collect()
}

struct StderrLogger;

impl log::Log for StderrLogger {
    fn enabled(&self, _m: &log::Metadata) -> bool {
        true
    }
    fn log(&self, r: &log::Record) {
        eprintln!(
            "[{:>10.3} ms] {:5} {}: {}",
            crate::sim::clock::now() as f64 / 1000.0,
            r.level(),
            r.target(),
            r.args()
        );
    }
    fn flush(&self) {}
}

static LOGGER: StderrLogger = StderrLogger;

/// Enable rs-matter's own log output on stderr (virtual time stamps) when `RSMV_LOG` is set
/// to a level name (error / warn / info / debug / trace).
pub fn init_log_from_env() {
    if let Ok(level) = std::env::var("RSMV_LOG") {
        let lf = match level.as_str() {
            "error" => log::LevelFilter::Error,
            "warn" => log::LevelFilter::Warn,
            "debug" => log::LevelFilter::Debug,
            "trace" => log::LevelFilter::Trace,
            _ => log::LevelFilter::Info,
        };
        let _ = log::set_logger(&LOGGER);
        log::set_max_level(lf);
    }
}
