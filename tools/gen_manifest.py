#!/usr/bin/env python3
"""Regenerate /verif/MANIFEST.json from the table below (keeps it schema-valid)."""
import json, subprocess

HOOK_COMMITS = ["76d1dcf", "4fe8242", "f0fc890"]

CLAIMED = {
 "C01": dict(cat="exploration",
   text="Real CASE handshakes between two rs-matter nodes over a simulated network whose adversary knows the ground truth of each run (credential defect of one side, on-path mutation/truncation/extension/replay/reorder of a handshake datagram, loss/dup/delay schedule); the session tables of both nodes are compared with it (no session for defective credentials, exact fabric/node/CAT binding, pairwise equal directional keys, honest run succeeds). Held = oracle silent on every handshake produced.",
   note="Trusted: virtual-time executor, simulated network, read-only session snapshot hook. Cryptographic strength is not tested. Only paths the generated handshakes drive are covered.",
   tech="runtime monitoring: ground-truth oracle over session tables of two real nodes under a network adversary", ref="DESIGN.md §3 C01"),
 "C05": dict(cat="exploration",
   text="The real access decision (Accessor + AccessReq::allow, driven exactly as the Interaction Model drives it, over real Fabrics/ACL tables built through the public API and through persisted blobs) is compared with a 60-line reference written from the statement on hundreds of thousands (thorough: 5e7) of generated configurations biased to near misses; every reference rule must be the deciding rule >= 1000 times or the run is inconclusive. Held = no disagreement.",
   note="Reference algorithm trusted. Not judged (counted as notes): ProxyView-implies-View (rs-matter documents ProxyView as granting nothing), CAT version 0, entries without/with foreign fabric label, declarations without a privilege bit.",
   tech="runtime monitoring: differential oracle (reference access algorithm) over generated ACL configurations", ref="DESIGN.md §3 C05"),
 "C03": dict(cat="exploration",
   text="Authentic datagrams for CASE, PASE and group sessions over all header shapes and payload lengths are built with the session keys; every single-bit flip (<=128 B, sampled above), truncation, extension, re-keying, reflection, cross-session transplant, source/destination field change and group/unicast confusion is delivered alone to a real receiver node before the authentic original (control). Oracle: a mutant is never handed to an exchange and leaves the session snapshot (counters, window, exchanges, keys) unchanged; the original is delivered exactly once with identical header fields and payload; 1e6 codec-level encode/decode round trips with 5e6 mutants.",
   note="Cryptographic forgery is not searched for. Trusted: snapshot hook, harness-side encoder over the public PacketHdr API. MSG_EXT/PRIVACY/SECEX flags only reached by bit flips; TCP not covered.",
   tech="runtime monitoring: mutation of authentic datagrams with snapshot-diff and delivery-log oracle", ref="DESIGN.md §3 C03"),
 "C06": dict(cat="exploration",
   text="A controller and a device (real Matter each) whose data model is a probe generated at run time (1-6 endpoints x 1-5 clusters x attributes/commands/events with arbitrary access declarations incl. timed-only and fabric-scoped, values a pure function of path and version) that logs every read/write/invoke it receives, plus the real Descriptor/ACL/NOC clusters on endpoint 0. Requests (wildcards at every position, absent elements, repeats, timed/untimed with virtual-time expiry, composition swapped between chunks) from 7 requester kinds are compared with a reference expansion written from the statement: decoded responses must equal the expected multiset per path (status classes), and the probe call log must stay inside the permitted set.",
   note="Status codes compared by class. Chunked writes (2-4 messages, per-chunk TimedRequest flag against a real / absent / expiring timed interaction) are covered; group requesters and writes/invokes on the real system clusters are not. ProxyView-only grants are not judged (see C05).",
   tech="runtime monitoring: reference path-expansion oracle + instrumented data model call log", ref="DESIGN.md §3 C06"),
 "C14": dict(cat="exploration",
   text="Same scaffold as C06; value sizes are swept so that the space left in a chunk takes every offset -8..+8 around the fit boundary for scalars, octet strings, lists (elements that do / do not fit, lists longer than a message), with data-version and event filters, for reads, subscription priming and subscription reports. The concatenation of decoded chunks must equal the one-shot expected result (each value and event exactly once, lists reassembled in order), every chunk must be well-formed on its own (strict independent TLV walk), fit the maximum payload, and only the last one ends the interaction; inputs that cannot be transported must terminate with a status in a bounded number of chunks.",
   note="TX buffer size is a compile-time constant: 'every buffer size' is explored through value sizes; large-buffers build not covered. Event-number order only noted.",
   tech="runtime monitoring: chunk-reassembly oracle against one-shot reference expansion, boundary sweep of value sizes", ref="DESIGN.md §3 C14"),
 "C07": dict(cat="exploration",
   text="Histories over a controller (administrator of two fabrics that deliberately share node ids) and a full device with the real system clusters and a persistent store: fabrics are commissioned through the real ArmFailSafe/CSR/AddTrustedRoot/AddNOC/CommissioningComplete commands, CASE sessions established, resumed and parked, then a fabric vanishes (fail-safe expiry, ArmFailSafe(0), restart before completion, RemoveFabric by own or other administrator), optionally another fabric takes its index. Every session and resumption record in the device snapshots is tied to the fabric incarnation (fabric id, node id, root hash) it was created under; old sessions and old credentials are actively probed; a session of an untouched fabric must keep working.",
   note="Subscriptions, ACL entries and group keys of the vanished fabric are covered only in so far as they live inside the fabric record that disappears with it. Trusted: snapshot hooks, commissioning scaffold.",
   tech="runtime monitoring: incarnation-tracking invariant over session-table / resumption-cache snapshots plus active probes after fabric removal", ref="DESIGN.md §3 C07"),
 "C08": dict(cat="fault_enumeration",
   text="Commissioning attempts (new fabric over PASE, second fabric through an opened window, UpdateNOC, settings-only fail-safe over CASE with ACL and network writes) whose command list is cut, permuted, repeated or issued from another session context, ended by fail-safe expiry, ArmFailSafe(0), RevokeCommissioning, restart or CommissioningComplete (over CASE, or over the PASE session), with a KV store failure injected at one mutating operation; afterwards EVERY prefix of the KV operation log is used as a crash point (restart from the map after k operations). Oracle: rollback restores fabrics (canonical serialisation incl. ACLs/groups), networks, fail-safe state and breadcrumb in RAM and after restart; a completed commissioning survives restart; at a crash point the node has the pre-arming or the committed pair, committed only once acknowledged; out-of-order / repeated / foreign-context credential commands are refused without effect.",
   note="KvBlobStore contract: each store atomic and durable on return. Known finding (listed): the commit is two KV writes and cannot be made atomic over that interface. ArmFailSafe(0)/Revoke by another administrator is observed, not judged.",
   tech="runtime monitoring: before/after state-dump oracle with exhaustive crash-point enumeration over the recorded KV log and KV fault injection", ref="DESIGN.md §3 C08"),
 "C09": dict(cat="exploration",
   text="Two real nodes exchange uniquely tagged application messages over CASE, PASE and unsecured sessions (1-4 concurrent exchanges, ping-pong and one-way streams) under seeded adversaries (per-datagram loss/dup/delay up to 50 %, drop all acks, drop first n copies, deliver after give-up, duplicate after ack, stale carriers). An offline checker over the recorded {call, return, app-receive, wire} history judges: at most once and in order, Ok only if a copy reached the peer, return within the retransmission budget, error on exhaustion, Ok if a transmission and an acknowledgement got through, back-off lower bound, duplicates of R-flagged messages re-acknowledged.",
   note="Virtual time makes the back-off rule exact. Not judged: 6 transmissions instead of 5; late duplicates on unsecured sessions taken for a counter restart (mandated by C04). Datagrams decoded with the known session keys.",
   tech="runtime monitoring: offline history checker (MRP rules O1-O7) over application and wire events under network adversaries", ref="DESIGN.md §3 C09"),
 "C13": dict(cat="exploration",
   text="End-to-end: a device with a version-valued data model and 1-4 subscribers (public subscribe client + report sink answering Success / Failure / nothing) run scenarios of 100-350 virtual seconds with changes and events injected at every await point of (multi-chunk) priming and of other subscribers' reports, >16 pending changes, failed and retried reports, session loss and device restarts with persisted subscriptions. Offline oracle: S1 completeness at the bound (latest version of every subscribed attribute changed after its priming read, every subscribed event), S2 retry with same content, S3 min interval (first transmissions from the wire tap), S4 max interval, S5 failing subscription ends within max interval of its last success.",
   note="Liveness is decided only as bounded progress after faults stop (part of the claim). Head-of-line blocking of the single reporter task is observed as subscriptions the device expires (noted). Table-level monitor not built (would need wrappers over crate-private subscription table API).",
   tech="runtime monitoring: offline checker over device-side change log and subscriber-side report log, bounded-progress restatement of liveness", ref="DESIGN.md §3 C13"),
 "C04": dict(cat="exploration",
   text="Every boolean produced by the real receive-window and group-sender-table code is compared, step by step, with a reference written from the statement over exhaustively enumerated short histories around a window edge plus millions of biased random histories (duplicates, re-ordering, jumps of any size, values near 0 / 2^31 / 2^32-1, roll-over, evictions). Held = the oracle was silent on all of them.",
   note="Reference model (60 lines) and LRU eviction rule are trusted; runs explore histories up to length 300, not all histories.",
   tech="runtime monitoring: reference-model oracle over enumerated + random counter histories", ref="DESIGN.md §3 C04"),
 "C02": dict(cat="exploration",
   text="Real PASE handshakes between a commissioner, a device and a second concurrent initiator over the simulated network, with per-run ground truth: passcode equal/different, crafted Pake1 points (identity, off-curve, wrong length), on-path mutation/replay/reorder of every handshake datagram, window events (close, virtual-time expiry, re-open) placed between every pair of handshake messages, 25 consecutive wrong-passcode attempts. Oracle: a PASE session at the device implies window open at the final proof, equal passcodes and intact transcript, mirrored keys; lock-out after 20 failed proofs; commissionable mDNS service listed iff window open; no reserved session / in-progress marker left at quiescence.",
   note="Trusted: simulated network/clock, read-only PASE-state and session snapshot hooks. Over-counting failures / closing early are not judged. Enhanced (verifier) windows and RevokeCommissioning-over-IM are not exercised here (C07/C08 drive RevokeCommissioning).",
   tech="runtime monitoring: ground-truth oracle over session tables, window state and mDNS service list under a network adversary", ref="DESIGN.md §3 C02"),
 "C11": dict(cat="fault_enumeration",
   text="Administrative histories over the full device (1-2 completed commissionings, NodeLabel and ACL writes, CASE rounds filling the resumption cache, fabric removal) with a recording KV store; EVERY prefix of the KV operation log is a crash point: a device restarted from the map after k operations must come up with each committed item (each fabric record incl. ACL, network list, node label) at its last acknowledged or its next value. Plus read-back equality at the end, factory reset leaving no key below the vendor range, and start-up with a damaged resumption blob (every truncation, bit flips, random bytes, boundary length fields).",
   note="KvBlobStore contract: each store atomic and durable on return; multi-write atomicity is judged by C08. Group membership (GroupKeyMap write, AddGroup, rename) is driven through the real Groups cluster; bindings, user labels, key-set writes and persisted subscriptions are not driven by these histories (C13 covers restart with persisted subscriptions).",
   tech="runtime monitoring: acknowledged-change oracle with exhaustive crash-point enumeration over the recorded KV log; corruption fuzzing of the resumption blob", ref="DESIGN.md §3 C11"),
 "C12": dict(cat="fault_enumeration",
   text="Histories of {reserve, restart, crash before/after each individual KV store, injected store failure} over the three durable counters, starting from boundaries incl. next to the wrap-around; every crash point of histories <= 12 operations is enumerated. Group counter through the reservation hook and through real Exchange::initiate_group sends read off the wire tap; event numbers through a real InteractionModel; check-in counter through the public Icd API with the harness as a well-behaved application. Oracle: values yielded over all incarnations form a set, and each value is covered by a boundary durable in the KV map at the time of use.",
   note="KvBlobStore contract assumed: each store atomic and durable on return. Uniqueness asserted for histories shorter than one lap of the counter range. factory_reset and Icd::send_check_in end-to-end not covered.",
   tech="runtime monitoring: offline checker over yielded-value multiset and KV operation log, crash points enumerated", ref="DESIGN.md §3 C12"),
 "C16": dict(cat="exploration",
   text="(A) generated value trees (all tag forms, integer widths at extremes, floats incl. NaN patterns, strings with 1/2/4/8-byte length fields, nesting to 128+) written with the real writer, decoded, compared structurally and re-encoded through to_tlv and tlv_iter; 20 derived types covering every macro attribute plus 29 public wire types round-tripped. (B) > 1e6 byte strings (random, exhaustive control bytes, every truncation, length fields replaced by boundary values up to 2^64-1, nested, mutated) fed to all 43 public accessors and 47 FromTLV decoders under catch_unwind with pointer-range and termination checks. Held = no mismatch, panic, out-of-range slice or unbounded iteration.",
   note="Checked build (overflow checks, debug assertions) is the detector for arithmetic faults; Miri/ASan layers add UB detection in the thorough tier. A hang inside one call is caught by a wall-clock watchdog and reported as inconclusive.",
   tech="runtime monitoring: round-trip + robustness oracles over generated trees and hostile byte strings, checked build as sanitizer", ref="DESIGN.md §3 C16"),
 "C17": dict(cat="exploration",
   text="For 16 formats (plain/protocol header, whole packet with AEAD, status report, 5 BDX messages, check-in, ParseBuf/WriteBuf, QR payload, manual code, base-38, BLE advertisement, mDNS records, Matter-TLV<->X.509 certificates checked against the independent x509-cert parser, CSR, certification declaration, attestation certs): legal field combinations are encoded, decoded and compared field-wise; every Verhoeff single-digit substitution and adjacent transposition and out-of-range fields must be refused; arbitrary/truncated/mutated inputs must yield a value or an error without panicking.",
   note="X.509->TLV has no public converter (no fixed point); long manual codes, raw QR bit strings and CD are decoder-only (reference encoders in the harness). PRIVACY/MSG_EXT/SECEX flags have no public setters.",
   tech="runtime monitoring: per-format round-trip and refusal oracles plus decoder robustness under catch_unwind", ref="DESIGN.md §3 C17"),
 "C18": dict(cat="exploration",
   text="The public Btp state machine is driven against an independent harness BTP peer (own codec + window accounting written from the BTP specification) in three topologies, on virtual time: conversations of unique-payload messages over all segment sizes/windows/MTUs with sequence wrap and idle periods (delivery exactly once, in order, unmodified; unacknowledged segments never exceed the announced window; every segment acknowledged before the deadline), and hostile segment sequences before/after the handshake (no panic, refused or session closed, nothing corrupted delivered).",
   note="Trusted: the harness BTP reference peer. GATT layer itself (bluer/zbus) is not driven. Liveness judged as 100 s of virtual time without progress.",
   tech="runtime monitoring: reference-peer differential oracle + window/ack accounting from the segment tap, hostile segment injection", ref="DESIGN.md §3 C18"),
 "C19": dict(cat="exploration",
   text="A harness-side Matter-TLV certificate writer (every field a knob) produces valid chains and chains departing from validity in exactly one of 70 classes (signature bit, issuer/subject name, key ids, fabric/node id, validity edges, CA flag, key usages, path length, critical extension, swapped/repeated certificates, leaf as authority, foreign root, CSR key, existing fabric); the real verifier (verify_chain_start..finalise) and the real AddNOC / UpdateNOC paths of the fail-safe are compared with a reference predicate written from the statement. Held = accept/reject agrees on every chain and no panic.",
   note="Trusted: reference predicate, own certificate writer (TBS obtained from rs-matter's as_asn1), rustcrypto ECDSA. CASE's own validate_certs is driven by C01, not here. Not judged (notes): ICAC/RCAC fabric-id mismatch, node id range, RCAC used as ICAC.",
   tech="runtime monitoring: differential oracle (reference validity predicate) over generated certificate chains with single departures", ref="DESIGN.md §3 C19"),
 "C15": dict(cat="exploration",
   text="A passive wire monitor (independent header decoder fed from the network tap, plus session-table snapshots) observes every datagram of two traffic families under 10-50 % loss, duplication and reordering: CASE/PASE handshakes with forced retransmission of each handshake message followed by secured request/response chatter, and the full administrative traffic of the commissioning world (fail-safe, credentials, ACL/label writes, CASE rounds, restarts). Rules: the same (sender, session id, message counter) never carries two different ciphertexts (nonce reuse); a retransmission of an acknowledgement-requesting unsecured message is byte-identical (or differs only by a rebuilt piggy-backed ack, counted); per-session send counters read from snapshots never decrease and local session / exchange ids are unique while live. Floors on secured datagrams, byte-identical retransmissions, forced handshake retransmissions and snapshots.",
   note="Passive: judges only what these workloads put on the wire. Counter order on the wire is not judged (reordering is the network's right). Group sessions are covered by C12 (durable counter) and C03 (group datagrams), not here. Trusted: tap, independent header decoder, snapshot hook.",
   tech="runtime monitoring: passive wire-tap monitor (nonce-uniqueness / retransmission-identity) plus session-snapshot monotonicity monitor under lossy schedules", ref="DESIGN.md §3 C15"),
 "C10": dict(cat="exploration",
   text="Two real nodes with three mirrored secure sessions (two disturbed, one probe session), 16 acceptor slots each and a keyed hostile peer. Disturbance phase: handlers that accept after 0-5 s or never, handlers and clients dropped by cancellation at every await point (n = 0..14), 8 handler behaviours, exchange-table overflow, session-table pressure, CloseSession in flight, loss/dup/reorder, and injected secured/unsecured/group datagrams over {exchange id: fresh, live in either role, stale, live on another session} x {I, R, ack field} x {data, stand-alone ack, status report, CloseSession, Sigma1, PBKDFParamRequest, IM, MsgCounterSync} x {live, expired session}. Oracle: every payload is tagged and may surface only on the handle of its own session/exchange id/role (R1); no exchange appears after a non-initiator message, a stand-alone ack or on an expired session (R2, table sampled after every poll); after faults stop, probes in both directions on an untouched session are answered within 30 s virtual (R3); RX slot free, no exchange accept-pending or dropped, and no datagrams during the last 30 s of a 100 s quiet tail (R4-R6); run terminates (R7); an acknowledged message reaches the owner waiting in recv (R8); no exchange stays unclaimed beyond 3 s (R9). A family of 'unsecured twins' (2-3 unsecured peers + secure hostile peers opening exchanges with the same exchange id, follow-ups in crossed order) checks that delivery is by session/peer, not by exchange id alone. Both the default and the 3x3 small-tables build are run, each with its own coverage floors.",
   note="'Never wedges' is decided as bounded progress after faults stop on the schedules produced. Duplicates surfacing twice are counted, not judged (C09). I-flagged status reports / unsecured initiator data opening an exchange are not judged. Observed, not judged: a CloseSession sent on a fresh exchange id is dropped by a receiving rs-matter node; RX slot held for a whole MRP ladder by an owner that is sending.",
   tech="runtime monitoring: tagged-payload routing oracle, exchange-table sampling, bounded-progress probes and wire-quiescence monitor under cancellation / late-accept / hostile-injection workloads", ref="DESIGN.md §3 C10"),
 "C20": dict(cat="exploration",
   text="A real responder node with a bounded handler pool (every secure-channel handler under cancellation at a chosen await point) is attacked by 1-3 real initiators plus spoofed sources making 1-40 PASE/CASE attempts each that stop after message k for every k, send one of 8 kinds of garbage at message k, are cancelled, retry concurrently, or complete; families: hostile, table-full (table pre-filled, p sessions pinned by live exchanges owned by the harness), exchange flood, mDNS resolve/browse rendezvous callers cancelled or timed out at every await against four responder stand-ins, and 20 commissioning rounds (complete / abandoned four ways) on the full device. After traffic stops and 70-150 s of virtual time: no reserved session, no exchange slot in use, RX/TX and rendezvous slots free on every node, legitimate CASE and PASE probes succeed; a pinned session is never removed; after faults stop a probe succeeds whenever an idle session exists; PASE sessions do not survive CommissioningComplete. Run on the default (16x5) and the small-tables (3x3) build.",
   note="Restated as bounded: state at quiescence after every time-out the code defines. Known finding (listed): with exactly one idle session and all others busy a handshake cannot succeed (needs two table entries). Busy vs silent answer with a table full of busy sessions is counted, not judged. Eviction of a session with a live exchange is judged only where the harness owns the exchange. 64x16 configuration not built.",
   tech="runtime monitoring: session/exchange/rendezvous-slot invariants at quiescence, eviction monitor on pinned sessions and probe handshakes after hostile handshake sequences; two table-size builds", ref="DESIGN.md §3 C20"),
}

NOT_YET = "check not built yet in this framework (work in progress; planned, see DESIGN.md §3)"

def main():
    props = [json.loads(l) for l in open('/verif/properties.jsonl')]
    checks = []
    for pid, c in sorted(CLAIMED.items()):
        checks.append({
            "property_id": pid,
            "quick_cmd": f"./check {pid} --tier quick",
            "thorough_cmd": f"./check {pid} --tier thorough",
            "evidence_file": f"/verif/evidence/{pid}.json",
            "replay_cmd_template": f"./check {pid} --replay {{path}}",
            "engine": "rsmv",
            "level_claimed": {"category": c["cat"], "text": c["text"], "design_ref": c["ref"]},
            "level_note": c["note"],
            "technique": c["tech"],
        })
    m = {
        "version": 1,
        "setup_cmd": "./check build",
        "hooks": {
            "guard": "cargo feature 'verif' of crate rs-matter (off by default)",
            "enable": "/verif/harness/Cargo.toml depends on rs-matter by path /repo/rs-matter with features [..., \"verif\"]",
            "baseline_off_cmd": "cd /repo && (cargo nextest run --workspace --no-fail-fast --test-threads 8 --offline || cargo test --workspace --no-fail-fast --offline)",
            "source_commits": HOOK_COMMITS,
            "add_only": True,
        },
        "engines": [{"name": "rsmv", "path": "/verif/harness", "serves_properties": sorted(CLAIMED.keys()),
                     "kind_free_text": "Rust harness linking the real rs-matter crate: virtual-time executor, simulated network/KV/RNG, per-property workload generators and oracles; python driver ./check shards it over 16 processes"}],
        "checks": checks,
        "notes": "Runtime monitoring family. See DESIGN.md. Verdicts are three-valued: exit 0 held / 1 violated / 2 inconclusive.",
        "not_applicable": [{"property_id": p["id"], "reason": NOT_YET} for p in props if p["id"] not in CLAIMED],
    }
    json.dump(m, open('/verif/MANIFEST.json', 'w'), indent=1)
    try:
        import jsonschema
        jsonschema.validate(m, json.load(open('/root/.vp/MANIFEST.schema.json')))
        print("manifest valid;", len(checks), "checks")
    except ImportError:
        print("jsonschema not importable here; run with python3-vt to validate")

if __name__ == "__main__":
    main()
