#!/usr/bin/env python3
"""Regenerate /verif/MANIFEST.json from the table below (keeps it schema-valid)."""
import json, subprocess

HOOK_COMMITS = ["76d1dcf", "4fe8242"]

CLAIMED = {
 "C01": dict(cat="exploration",
   text="Real CASE handshakes between two rs-matter nodes over a simulated network whose adversary knows the ground truth of each run (credential defect of one side, on-path mutation/truncation/extension/replay/reorder of a handshake datagram, loss/dup/delay schedule); the session tables of both nodes are compared with it (no session for defective credentials, exact fabric/node/CAT binding, pairwise equal directional keys, honest run succeeds). Held = oracle silent on every handshake produced.",
   note="Trusted: virtual-time executor, simulated network, read-only session snapshot hook. Cryptographic strength is not tested. Only paths the generated handshakes drive are covered.",
   tech="runtime monitoring: ground-truth oracle over session tables of two real nodes under a network adversary", ref="DESIGN.md §3 C01"),
 "C05": dict(cat="exploration",
   text="The real access decision (Accessor + AccessReq::allow, driven exactly as the Interaction Model drives it, over real Fabrics/ACL tables built through the public API and through persisted blobs) is compared with a 60-line reference written from the statement on hundreds of thousands (thorough: 5e7) of generated configurations biased to near misses; every reference rule must be the deciding rule >= 1000 times or the run is inconclusive. Held = no disagreement.",
   note="Reference algorithm trusted. Not judged (counted as notes): ProxyView-implies-View (rs-matter documents ProxyView as granting nothing), CAT version 0, entries without/with foreign fabric label, declarations without a privilege bit.",
   tech="runtime monitoring: differential oracle (reference access algorithm) over generated ACL configurations", ref="DESIGN.md §3 C05"),
 "C04": dict(cat="exploration",
   text="Every boolean produced by the real receive-window and group-sender-table code is compared, step by step, with a reference written from the statement over exhaustively enumerated short histories around a window edge plus millions of biased random histories (duplicates, re-ordering, jumps of any size, values near 0 / 2^31 / 2^32-1, roll-over, evictions). Held = the oracle was silent on all of them.",
   note="Reference model (60 lines) and LRU eviction rule are trusted; runs explore histories up to length 300, not all histories.",
   tech="runtime monitoring: reference-model oracle over enumerated + random counter histories", ref="DESIGN.md §3 C04"),
 "C19": dict(cat="exploration",
   text="A harness-side Matter-TLV certificate writer (every field a knob) produces valid chains and chains departing from validity in exactly one of 70 classes (signature bit, issuer/subject name, key ids, fabric/node id, validity edges, CA flag, key usages, path length, critical extension, swapped/repeated certificates, leaf as authority, foreign root, CSR key, existing fabric); the real verifier (verify_chain_start..finalise) and the real AddNOC / UpdateNOC paths of the fail-safe are compared with a reference predicate written from the statement. Held = accept/reject agrees on every chain and no panic.",
   note="Trusted: reference predicate, own certificate writer (TBS obtained from rs-matter's as_asn1), rustcrypto ECDSA. CASE's own validate_certs is driven by C01, not here. Not judged (notes): ICAC/RCAC fabric-id mismatch, node id range, RCAC used as ICAC.",
   tech="runtime monitoring: differential oracle (reference validity predicate) over generated certificate chains with single departures", ref="DESIGN.md §3 C19"),
}

NOT_YET = "check not built yet in this framework (work in progress; planned, see DESIGN.md §3)"

def main():
    props = [json.loads(l) for l in open('/verif/properties.jsonl')]
    checks = []
    for pid, c in sorted(CLAIMED.items()):
        checks.append({
            "property_id": pid,
            "quick_cmd": f"./check {pid} --tier quick",
            "thorough_cmd": f"./check {pid} --tier thorough",
            "evidence_file": f"/verif/evidence/{pid}.json",
            "replay_cmd_template": f"./check {pid} --replay {{path}}",
            "engine": "rsmv",
            "level_claimed": {"category": c["cat"], "text": c["text"], "design_ref": c["ref"]},
            "level_note": c["note"],
            "technique": c["tech"],
        })
    m = {
        "version": 1,
        "setup_cmd": "./check build",
        "hooks": {
            "guard": "cargo feature 'verif' of crate rs-matter (off by default)",
            "enable": "/verif/harness/Cargo.toml depends on rs-matter by path /repo/rs-matter with features [..., \"verif\"]",
            "baseline_off_cmd": "cd /repo && (cargo nextest run --workspace --no-fail-fast --test-threads 8 --offline || cargo test --workspace --no-fail-fast --offline)",
            "source_commits": HOOK_COMMITS,
            "add_only": True,
        },
        "engines": [{"name": "rsmv", "path": "/verif/harness", "serves_properties": sorted(CLAIMED.keys()),
                     "kind_free_text": "Rust harness linking the real rs-matter crate: virtual-time executor, simulated network/KV/RNG, per-property workload generators and oracles; python driver ./check shards it over 16 processes"}],
        "checks": checks,
        "notes": "Runtime monitoring family. See DESIGN.md. Verdicts are three-valued: exit 0 held / 1 violated / 2 inconclusive.",
        "not_applicable": [{"property_id": p["id"], "reason": NOT_YET} for p in props if p["id"] not in CLAIMED],
    }
    json.dump(m, open('/verif/MANIFEST.json', 'w'), indent=1)
    try:
        import jsonschema
        jsonschema.validate(m, json.load(open('/root/.vp/MANIFEST.schema.json')))
        print("manifest valid;", len(checks), "checks")
    except ImportError:
        print("jsonschema not importable here; run with python3-vt to validate")

if __name__ == "__main__":
    main()
