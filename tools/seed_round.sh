#!/bin/bash
# usage: tools/seed_round.sh <ID> <suffix>   e.g. C08 c  -> /tmp/seed-c08c/TASK.md (lists all earlier seeds of that property)
ID=$1; SUF=$2; id=$(echo $ID | tr A-Z a-z); d=/tmp/seed-${id}${SUF}; mkdir -p $d/out
python3 /verif/tools/seed_prompt.py $ID | sed "s#/tmp/seed-$id#/tmp/seed-${id}${SUF}#g" > $d/TASK.md
python3 - <<PY >> $d/TASK.md
import json, glob
print()
print("NOTE: earlier exercises already produced the following changes for this property; produce a DIFFERENT one (different function, different clause of the statement, different trigger):")
for f in sorted(glob.glob('/verif/seeded/${ID}*/meta.json')):
    m=json.load(open(f))
    print("  -", m['files_changed'], "-", m['summary'][:400])
print("Use this test command (plain 'cargo test -p rs-matter' does not compile tests/binding.rs without the groups feature): cargo test -p rs-matter --offline --no-fail-fast --features groups,case-resumption,async-io,max-group-keys-per-fabric-2,max-groups-per-fabric-4 . Some integration tests bind fixed UDP ports and may fail with 'Address already in use' when other jobs run at the same time; re-run such a test alone before concluding anything. Do not use 'git stash' (it is shared between worktrees).")
PY
echo $d
