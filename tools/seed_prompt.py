#!/usr/bin/env python3
"""Print the prompt given to a fresh sub-agent that must produce a seeded breaking change for one property.
The agent sees only the property record and its own scratch worktree (nothing from /verif)."""
import json, sys
pid = sys.argv[1]
wt = f"/tmp/seed-{pid.lower()}"
p = next(json.loads(l) for l in open('/verif/properties.jsonl') if json.loads(l)['id'] == pid)
anch = p['anchors']
print(f"""You are given a scratch git worktree of the open-source Rust project project-chip/rs-matter (a no_std implementation of the Matter smart-home protocol) at {wt}/repo (create it first with: `mkdir -p {wt} && git -C /repo worktree add --detach {wt}/repo HEAD`). Work ONLY inside {wt}. Never modify /repo itself, and do not read or use anything under /verif. The sandbox has no network: always pass `--offline` to cargo. Use `CARGO_TARGET_DIR={wt}/target` for every cargo command, and delete {wt}/target when you are done (disk is limited). Leave the worktree itself in place; I will remove it.

This is a mutation-testing exercise for a verification framework. Here is a semantic property that the code base is supposed to satisfy:

TITLE: {p['title']}

STATEMENT: {p['statement']}

QUANTIFIER: {p['quantifier']['text']}

CODE ANCHORS (files): {', '.join(anch['files'])}
MECHANISMS: {json.dumps(anch.get('mechanism', []))}

YOUR TASK: produce ONE realistic source change to the rs-matter crate (the kind of regression a maintainer could plausibly introduce in a refactoring or "optimisation": an off-by-one, a dropped check, a wrong comparison, a reordered pair of statements, a missed state reset, a wrong field used ...) such that
  1. the property above is BROKEN by the change (some input / schedule / fault sequence / history now violates the statement),
  2. the code still compiles (default features as used by the tests, and also with `--features verif` on the rs-matter crate if such a feature exists: check with `cargo check -p rs-matter --offline --features verif`; do not touch code inside `#[cfg(feature = "verif")]` blocks),
  3. the existing test suite still passes: run `cargo test -p rs-matter --offline` (lib + integration tests of the rs-matter crate) in your worktree with the change applied and confirm there are no new failures compared with the unchanged worktree (if a test fails on the UNCHANGED worktree as well, say so and ignore it),
  4. the violation needs something SPECIFIC to manifest (a particular input shape, boundary value, timing / loss pattern, crash point, sequence of operations) - not something that every run trips over. It must nevertheless be reachable through the crate's real behaviour (public API / real protocol traffic), not only by calling a private function directly.
Keep the change small (typically 1-10 lines), in non-test code, and do not change any test. Prefer a change in the files listed as anchors. Be creative: pick a spot whose break is subtle, not the most obvious guard.

DELIVERABLES, all under {wt}/out/ :
  - patch.diff : `git -C {wt}/repo diff` of your change (must apply with `git apply` to HEAD of /repo).
  - demonstration.md : an explanation of why the property is broken, the specific input / schedule / history needed, and what is observed vs. what the statement requires. If you can, also give a runnable demonstration: `demo.diff` = a patch adding a NEW test file (e.g. rs-matter/tests/seed_demo.rs or a new #[test] in a new module) that FAILS with your change and PASSES without it, and the command to run it. A runnable demonstration is strongly preferred; if it is genuinely too hard, a precise step-by-step scenario is acceptable.
  - meta.json : {{"property": "{pid}", "files_changed": [...], "summary": "<one sentence>", "manifests_when": "<what specific thing is needed>", "tests_pass": true/false, "tests_cmd": "...", "runnable_demo": true/false}}

Finish by replying with the content of meta.json and a 5-line description. Before you finish: `git -C {wt}/repo checkout -- . && git -C {wt}/repo clean -fdq` is NOT needed (leave the mutated worktree as it is), but do delete {wt}/target.""")
