#!/bin/bash
# prepare /tmp/seed-<id>b/TASK.md for a second-round seeded change of property $1
ID=$1; id=$(echo $ID | tr A-Z a-z); d=/tmp/seed-${id}b; mkdir -p $d/out
python3 /verif/tools/seed_prompt.py $ID | sed "s#/tmp/seed-$id#/tmp/seed-${id}b#g" > $d/TASK.md
python3 - <<PY >> $d/TASK.md
import json
m=json.load(open('/verif/seeded/$ID/meta.json'))
print()
print("NOTE: an earlier exercise already produced the following change for this property; produce a DIFFERENT one (different function, different clause of the statement):")
print("  files:", m['files_changed'], "-", m['summary'])
print("Use this test command (plain 'cargo test -p rs-matter' does not compile tests/binding.rs without the groups feature): cargo test -p rs-matter --offline --no-fail-fast --features groups,case-resumption,async-io,max-group-keys-per-fabric-2,max-groups-per-fabric-4 . Some integration tests bind fixed UDP ports and may fail with 'Address already in use' when other jobs run at the same time; re-run such a test alone before concluding anything. Do not use 'git stash' (it is shared between worktrees).")
PY
echo $d
