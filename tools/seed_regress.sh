#!/bin/bash
# usage: tools/seed_regress.sh <lane> <seed-id>...   Re-runs seeded changes in a private lane (own worktree of
# /repo + own copy of /verif under /tmp/lane-<lane>), so that several lanes can run in parallel.
# Output: one line per seed in /tmp/lane-<lane>/results.txt
set -u
L=$1; shift
D=/tmp/lane-$L
mkdir -p $D
if [ ! -d $D/repo ]; then git -C /repo worktree add --detach $D/repo HEAD >/dev/null 2>&1; fi
git -C $D/repo checkout -q --detach $(git -C /repo rev-parse HEAD); git -C $D/repo checkout -- .
rsync -a --delete --exclude 'harness/target/miri' --exclude 'harness/target/asan' --exclude 'harness/target/shards' --exclude replays --exclude .git /verif/ $D/verif/
sed -i "s#/repo/rs-matter#$D/repo/rs-matter#" $D/verif/harness/Cargo.toml
: > $D/results.txt
for S in "$@"; do
  P=${S:0:3}
  case $S in C11c) P=C08;; esac
  if ! git -C $D/repo apply /verif/seeded/$S/patch.diff; then echo "$S patch-does-not-apply" >> $D/results.txt; continue; fi
  out=$(cd $D/verif && VERIF_SEED=1 ./check $P --tier quick 2>&1)
  rc=$?
  sigs=$(echo "$out" | grep -o "signature=[^ ]*" | sed 's/signature=//' | sort -u | head -4 | tr '\n' ' ')
  echo "$S check=$P rc=$rc $sigs" >> $D/results.txt
  git -C $D/repo checkout -- .
done
echo done >> $D/results.txt
