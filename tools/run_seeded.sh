#!/bin/bash
# usage: tools/run_seeded.sh <ID> [check ids...]   - apply /verif/seeded/<ID>/patch.diff to /repo, run the
# quick checks, restore /repo. Prints one line per check. Never commits.
set -u
ID=$1; shift
CHECKS=${@:-$ID}
cd /verif
if ! git -C /repo diff --quiet; then echo "/repo has uncommitted changes"; exit 2; fi
if ! git -C /repo apply --check /verif/seeded/$ID/patch.diff; then echo "$ID patch does not apply"; exit 2; fi
git -C /repo apply /verif/seeded/$ID/patch.diff
for c in $CHECKS; do
  out=$(VERIF_SEED=${VERIF_SEED:-1} ./check $c --tier ${TIER:-quick} 2>&1)
  rc=$?
  echo "seeded=$ID check=$c rc=$rc $(echo "$out" | tail -1)"
  echo "$out" | grep -E "signature=" | sed 's/.*signature=/   sig=/' | sort | uniq -c | head -8
done
git -C /repo checkout -- .
