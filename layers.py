"""Extra builds of the harness that a check runs besides the L0 checked build.

  small   both tiers  the `small-tables` build (rs-matter max-sessions-3 / max-exchanges-per-session-3)
  asan    thorough    nightly, -Zsanitizer=address: a report is a violation
  miri    thorough    `cargo +nightly miri run`, Tree Borrows, reduced workloads: UB is a violation

Every layer function returns (reports, problems, info). A sanitizer finding is turned into a
synthetic report with one violation so that it goes through the same known-finding matching as
the oracles' violations; a time-out or a crash that is not a sanitizer report is a *problem*
(=> inconclusive), never a violation.
"""
import json
import os
import re
import subprocess
import time

VERIF = os.path.dirname(os.path.abspath(__file__))
HARNESS = os.path.join(VERIF, "harness")
NCPU = os.cpu_count() or 8


def _cargo(cmd, env, target_dir, extra_env=None):
    e = dict(env)
    e["CARGO_TARGET_DIR"] = target_dir
    e["CARGO_NET_OFFLINE"] = "true"
    if extra_env:
        e.update(extra_env)
    t0 = time.time()
    p = subprocess.run(cmd, cwd=HARNESS, env=e, stdout=subprocess.PIPE, stderr=subprocess.STDOUT, text=True)
    return p.returncode == 0, time.time() - t0, p.stdout


def _run_many(cmds, env, timeout_s, outdir, tag):
    """cmds: list of (index, argv, out_json). Runs them in parallel (<= NCPU at a time)."""
    os.makedirs(outdir, exist_ok=True)
    pending = list(cmds)
    running = []
    done = []
    deadline = time.time() + timeout_s
    while pending or running:
        while pending and len(running) < NCPU:
            i, argv, out = pending.pop(0)
            if os.path.exists(out):
                os.remove(out)
            errp = os.path.join(outdir, f"{tag}{i}.err")
            errf = open(errp, "w")
            running.append((i, out, errp, errf, subprocess.Popen(argv, cwd=VERIF, env=env, stdout=errf, stderr=errf)))
        still = []
        for i, out, errp, errf, p in running:
            rc = p.poll()
            if rc is None:
                if time.time() > deadline:
                    p.kill()
                    p.wait()
                    errf.close()
                    done.append((i, out, errp, "watchdog"))
                else:
                    still.append((i, out, errp, errf, p))
            else:
                errf.close()
                done.append((i, out, errp, rc))
        running = still
        if running:
            time.sleep(0.2)
    return done


def _synthetic(pid, layer, kind, where, text, argv):
    sig = f"{pid}/{layer}/{kind}/{where}"
    return {
        "evaluations": 0, "distinct": [], "interleavings": [], "counters": {f"{layer}_reports": 1},
        "violations": [{
            "rule": layer,
            "signature": sig,
            "detail": text[-3000:],
            "replay": {"check": pid, "layer": layer, "argv": argv},
        }],
    }


# ------------------------------------------------------------------------------------------
# small tables
# ------------------------------------------------------------------------------------------

def small_binary(env):
    tdir = os.path.join(HARNESS, "target", "small")
    ok, secs, out = _cargo(["cargo", "build", "--offline", "--bin", "rsmv", "--features", "small-tables"], env, tdir)
    return ok, secs, out, os.path.join(tdir, "debug", "rsmv")


def small_tables(pid, seed, env, tier):
    ok, secs, out, binary = small_binary(env)
    info = dict(build_s=round(secs, 1), build="small-tables (3 sessions x 3 exchanges)")
    if not ok:
        return [], ["small-tables build failed:\n" + out[-2000:]], info
    outdir = os.path.join(HARNESS, "target", "shards", f"{pid}-small-{os.getpid()}")
    cmds = []
    for i in range(NCPU):
        o = os.path.join(outdir, f"s{i}.json")
        argv = [binary, "run", pid, "--seed", str(seed), "--shard", f"{i}/{NCPU}", "--out", o]
        if tier == "thorough":
            argv.append("--thorough")
        cmds.append((i, argv, o))
    done = _run_many(cmds, env, 900 if tier == "quick" else 5400, outdir, "s")
    reports, problems = [], []
    for i, o, errp, rc in done:
        if rc == 0 and os.path.exists(o):
            reports.append(json.load(open(o)))
        else:
            problems.append(f"small-tables shard {i}: {rc} (inconclusive)\n" + open(errp).read()[-800:])
    info["shards"] = len(reports)
    info["evaluations"] = sum(r.get("evaluations", 0) for r in reports)
    if info["evaluations"] == 0:
        problems.append("small-tables build evaluated nothing")
    return reports, problems, info


# ------------------------------------------------------------------------------------------
# ASan
# ------------------------------------------------------------------------------------------

ASAN_RE = re.compile(r"ERROR: AddressSanitizer: (\S+)")
FRAME_RE = re.compile(r"#\d+ 0x[0-9a-f]+ in (\S+) (/repo/\S+|src/\S+)")


def asan(pid, seed, env, tier, scale=1.0):
    tdir = os.path.join(HARNESS, "target", "asan")
    ok, secs, out = _cargo(
        ["cargo", "+nightly", "build", "--offline", "--bin", "rsmv", "--target", "x86_64-unknown-linux-gnu"],
        env, tdir, {"RUSTFLAGS": "-Zsanitizer=address -Cforce-frame-pointers=yes"})
    info = dict(build_s=round(secs, 1), build="nightly -Zsanitizer=address", scale=scale)
    if not ok:
        return [], ["ASan build failed (inconclusive):\n" + out[-2000:]], info
    binary = os.path.join(tdir, "x86_64-unknown-linux-gnu", "debug", "rsmv")
    e = dict(env)
    e["ASAN_OPTIONS"] = "halt_on_error=1:abort_on_error=0:detect_leaks=0:exitcode=77:detect_stack_use_after_return=0"
    outdir = os.path.join(HARNESS, "target", "shards", f"{pid}-asan-{os.getpid()}")
    cmds = []
    for i in range(NCPU):
        o = os.path.join(outdir, f"s{i}.json")
        cmds.append((i, [binary, "run", pid, "--seed", str(seed), "--shard", f"{i}/{NCPU}", "--scale", str(scale),
                         "--mode", "asan", "--out", o], o))
    done = _run_many(cmds, e, 3600, outdir, "a")
    reports, problems = [], []
    for i, o, errp, rc in done:
        text = open(errp).read()
        m = ASAN_RE.search(text)
        if m:
            fr = FRAME_RE.search(text)
            where = (fr.group(1).split("::")[-2:] if fr else ["unknown-frame"])
            reports.append(_synthetic(pid, "asan", m.group(1), "::".join(where), text[text.find("ERROR: AddressSanitizer"):],
                                      cmds[i][1]))
        elif rc == 0 and os.path.exists(o):
            reports.append(json.load(open(o)))
        else:
            problems.append(f"asan shard {i}: {rc} (inconclusive)\n" + text[-800:])
    info["shards"] = len(reports)
    info["evaluations"] = sum(r.get("evaluations", 0) for r in reports)
    return reports, problems, info


# ------------------------------------------------------------------------------------------
# Miri
# ------------------------------------------------------------------------------------------

MIRI_RE = re.compile(r"^error: (Undefined Behavior|unsupported operation|memory leaked|.*data race)[^\n]*", re.M)
MIRI_AT = re.compile(r"-->\s+(/repo/\S+|src/\S+?):(\d+):\d+")

# property -> (scale, shards, per-process time-out seconds). Measured: see DESIGN.md section 6.
MIRI_PLAN = {
    "C04": (0.0005, 16, 1500),
    "C05": (0.00005, 16, 1500),
    "C16": (0.0001, 16, 3000),
    "C17": (0.0001, 8, 3600),
}


def miri(pid, seed, env, tier):
    scale, shards, tmo = MIRI_PLAN[pid]
    tdir = os.path.join(HARNESS, "target", "miri")
    e = dict(env)
    e["CARGO_TARGET_DIR"] = tdir
    e["CARGO_NET_OFFLINE"] = "true"
    # Tree Borrows: Stacked Borrows rejects the self-referential futures every async program
    # is made of (see DESIGN.md); leaks: the harness leaks on purpose (Box::leak'ed worlds).
    e["MIRIFLAGS"] = "-Zmiri-disable-isolation -Zmiri-tree-borrows -Zmiri-ignore-leaks"
    outdir = os.path.join(HARNESS, "target", "shards", f"{pid}-miri-{os.getpid()}")
    os.makedirs(outdir, exist_ok=True)
    base = ["cargo", "+nightly", "miri", "run", "--offline", "--bin", "rsmv", "--"]
    # warm-up = build (one process; `selftest` returns at once)
    t0 = time.time()
    w = subprocess.run(base + ["version"], cwd=HARNESS, env=e, stdout=subprocess.PIPE, stderr=subprocess.STDOUT, text=True)
    info = dict(build_s=round(time.time() - t0, 1), build="cargo +nightly miri run (Tree Borrows, leaks ignored)", scale=scale)
    if "Finished" not in w.stdout and "Running" not in w.stdout:
        return [], ["miri build failed (inconclusive):\n" + w.stdout[-2000:]], info
    cmds = []
    for i in range(shards):
        o = os.path.join(outdir, f"s{i}.json")
        cmds.append((i, base + ["run", pid, "--seed", str(seed), "--shard", f"{i}/{shards}", "--scale", str(scale),
                                "--mode", "miri", "--out", o], o))
    # cargo needs cwd = harness
    done = _run_many_cwd(cmds, e, tmo, outdir, "m", HARNESS)
    reports, problems = [], []
    cut_off = 0
    for i, o, errp, rc in done:
        text = open(errp).read()
        m = MIRI_RE.search(text)
        if m:
            at = MIRI_AT.search(text[m.start():])
            where = f"{os.path.basename(at.group(1))}" if at else "unknown"
            kind = m.group(1).replace(" ", "-").lower()
            reports.append(_synthetic(pid, "miri", kind, where, text[m.start():m.start() + 3000], cmds[i][1]))
        elif rc == 0 and os.path.exists(o):
            reports.append(json.load(open(o)))
        elif rc == "watchdog":
            # The interpreter was still running when the time limit was reached and had reported
            # nothing: what this process executed until then is "no UB observed", its oracle
            # counters are lost. Recorded as a cut-off shard (coverage), see below.
            cut_off += 1
        else:
            problems.append(f"miri shard {i}: {rc} (inconclusive)\n" + text[-600:])
    info["shards_cut_off_at_time_limit"] = cut_off
    if cut_off * 2 > shards:
        problems.append(f"miri: {cut_off} of {shards} processes did not finish within {tmo} s (inconclusive)")
    info["shards"] = len(reports)
    info["evaluations"] = sum(r.get("evaluations", 0) for r in reports)
    return reports, problems, info


def _run_many_cwd(cmds, env, timeout_s, outdir, tag, cwd):
    global VERIF
    old = VERIF
    VERIF = cwd
    try:
        return _run_many(cmds, env, timeout_s, outdir, tag)
    finally:
        VERIF = old


# property -> list of (layer name, function, tiers)
LAYERS = {
    "C20": [("small-tables", small_tables, ("quick", "thorough"))],
    "C10": [("small-tables", small_tables, ("quick", "thorough"))],
}

for _p in ("C03", "C09", "C10", "C14", "C16", "C17", "C18", "C20"):
    LAYERS.setdefault(_p, []).append(("asan", asan, ("thorough",)))
for _p in MIRI_PLAN:
    LAYERS.setdefault(_p, []).append(("miri", miri, ("thorough",)))
