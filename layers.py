"""Sanitizer layers for the thorough tier (L1 Miri, L2 ASan). Filled in per property."""
LAYERS = {}
